"""C12 - leaving any curtsies context restores terminal, tty and signal state.

Real pty, real termios/fcntl/signal: a script (tree of contexts, operations and a possible `raise`) is executed with the
REAL context managers; after every enter / operation / exit the harness observes tcgetattr, F_GETFL, signal.getsignal,
the wake-up fd, the descriptors opened since the start and the window output (cursor visibility, alternate screen,
writes landing on the main screen) and compares with the snapshots predicted by Model/Contexts.lean.
The oracle is before/after equality of the raw observations around every context (property text).
"""
import fcntl
import struct
import io
import re
import os
import signal
import termios
import threading
import time
import tty

os.environ.setdefault("TERM", "xterm")
if not os.environ.get("TERM", "").startswith("xterm"):
    os.environ["TERM"] = "xterm"

import curtsies.input as cinput          # noqa: E402
from curtsies import events as cevents   # noqa: E402
from curtsies.window import FullscreenWindow, CursorAwareWindow   # noqa: E402
from curtsies.termhelpers import Cbreak, Nonblocking, Termmode     # noqa: E402
from curtsies.formatstring import fmtstr   # noqa: E402

PROP = "C12"
MODULES = ["Curtsies.Properties.C12"]
RULE = ("scripts = trees of contexts (Input with every sigint_event x disable_terminal_start_stop, FullscreenWindow(hide_cursor), "
        "CursorAwareWindow(hide_cursor, keep_last_line), Cbreak, Nonblocking, Termmode(attrs)), nested up to depth 3 and repeated, "
        "one object used in the main thread and in a worker thread (both orders; oracle only), bodies of <= 4 operations (a paste that "
        "raises inside the paste loop; requests reading a paste whose top-up read finds nothing / an empty read at EOF; renders on terminals resized to 0x0 / 0 rows / 0 columns / normal; requests returning without/with a read, raising after the read, interrupted by a real SIGINT "
        "while blocked in select; renders; trigger creation incl. threadsafe) truncated by an exception at any position; initial "
        "tty attributes (ECHO/ICANON/ISIG/IEXTEN/IXON/ICRNL/OPOST toggles, VMIN/VTIME/VSTOP/VSTART), initial O_NONBLOCK/O_APPEND, "
        "initial SIGINT handler (default_int_handler, SIG_DFL, SIG_IGN, user function), re-use of the same object after an environment "
        "change (tty attribute toggles/VINTR, O_APPEND, SIGINT handler), initial wake-up fd (none, user pipe); main and non-main thread. "
        "fixed enumeration: every context x every flag combination x {empty body, raise} x both threads; + seeded random trees. "
        "non-trivial = distinct scripts with at least one context entered")
ASSUMPTIONS = [
    "PARTIAL BY NATURE: the POSIX behaviour of termios/fcntl/signal/pipe is SPECIFIED in Model/Contexts.lean (tcsetattr makes "
    "tcgetattr return the value set, F_SETFL sets the flags, signal.signal/set_wakeup_fd return the previous value) and "
    "cross-checked against the real kernel on a pty by this harness - evidence, not proof",
    "exceptions are modelled at operation boundaries, at the blocked select (KeyboardInterrupt from a real SIGINT) and in find_key "
    "after the read - not between two bytecodes of an __enter__/__exit__",
    "__enter__ itself does not raise (a CursorAwareWindow whose cursor query fails never entered its context); SIGINT handlers "
    "were installed from Python (signal.getsignal is not None); one thread runs a whole script",
    "nested entry of the SAME context-manager object (`with cm: with cm:`) is outside the domain: context managers are not "
    "re-entrant by Python convention (decision of the coordinator); re-use after leaving is covered",
    "cursor visibility / alternate screen / main-screen writes are read off the window's output stream with the regenerated "
    "blessed capability strings (TERM=xterm); 'main screen untouched' = no output other than mode switches lands while the "
    "alternate screen is not active between entering and leaving a FullscreenWindow",
    "re-use of one context-manager object (after it was left, with the environment changing tty attributes / status flags / "
    "SIGINT handler in between) is covered for Input, Cbreak, Nonblocking, Termmode and CursorAwareWindow; re-entering the same "
    "FullscreenWindow object raises RuntimeError in __enter__ before anything is written (blessed's fullscreen() generator is "
    "single-use) - kept out, not flagged, by decision; environment changes happen between uses, not while a context is active",
    "an exception raised inside CursorAwareWindow.__enter__ itself (cursor query) leaves cbreak on, but the context was never "
    "entered, so 'leaving the context' does not apply - not flagged, by decision",
]
LEVEL_NOTE = ("PARTIAL: proof over an abstract OS state whose POSIX semantics are specified by the model (assumption, cross-checked on a "
              "real pty each run); the theorems are consequences of the model's own save/set/restore structure, so the weight of the "
              "evidence is on the real-pty tie (model snapshots vs observed tcgetattr/F_GETFL/getsignal/wake-up fd/fds/output after every "
              "step) and the before/after oracle; exceptions only at operation boundaries / the blocked select / after the read / at a "
              "write inside a render; hypotheses of C12_restore_partial: NoLeak (complement of D18: no threadsafe_event_trigger call; the "
              "oracle's footprint: the leaked descriptors are exactly the pipes those calls opened), CrashOk (EXACT complement of D36: no "
              "render of a hide_cursor=False window is cut short at a write after its first one - failing writes in hide_cursor=True "
              "windows and first-write failures are covered by the theorem; oracle footprint: such a render of the window being left or "
              "of one entered inside it), NoEnv (also a hypothesis of C12_full_statement, so that only D18/D36 refute it: nobody "
              "else changes tty attributes / status flags / SIGINT handler WHILE a context is active - such changes are covered between "
              "uses: C12_reuse); main-screen clause: NoScreenSwitch (no FullscreenWindow nested in the body - a superset of D26's footprint 'an inner "
              "FullscreenWindow was left before the first main-screen write': nested FullscreenWindows that are never followed by a "
              "write are excluded by the theorem although harmless; the oracle uses the exact footprint). trusted: Lean "
              "kernel + propext/Classical.choice/Quot.sound, the hand-written model, the harness' observation code")
TRUSTED = ["harness/props/c12.py observation of the live process (tcgetattr, F_GETFL, getsignal, set_wakeup_fd probe, /proc/self/fd) "
           "and its evaluation of symbolic tty terms on a scratch pty"]

USER_WAKE = 900      # model id of a wake-up fd the application had installed before


class Boom(Exception):
    pass


class Ev(cevents.Event):
    pass


class SEv(cevents.ScheduledEvent):
    pass


def user_handler_1(signum, frame):
    pass


def user_handler_2(signum, frame):
    pass


class PtyIn:
    """minimal text input stream over the pty slave (unbuffered, so nothing is held back between contexts)"""
    encoding = "latin-1"

    def __init__(self, fd):
        self.fd = fd

    def fileno(self):
        return self.fd

    def read(self, n=1):
        return os.read(self.fd, 1).decode("latin-1")


SIZES = [(0, 0), (0, 12), (4, 0), (4, 12)]     # terminal sizes (rows, columns) of the `sz<k>` steps; a fresh pty is 0x0


class FailingOut(io.StringIO):
    """window output stream whose n-th next write can be made to raise (a closed pipe, a full disk, a dead ssh);
    its fileno is the pty's, so that the windows ask the pty for the terminal size"""
    fail_in = None
    fd = None

    def fileno(self):
        if self.fd is None:
            raise io.UnsupportedOperation("fileno")
        return self.fd

    def write(self, text):
        if self.fail_in is not None:
            self.fail_in -= 1
            if self.fail_in <= 0:
                self.fail_in = None
                raise OSError("write failed (injected)")
        return super().write(text)


class BufferedOut:
    """a BLOCK-BUFFERED text stream over a pipe: what the windows write is judged by the bytes that have reached the
    descriptor, not by what sits in the stream object's buffer (a terminal sees only flushed output)"""
    fail_in = None

    def __init__(self, size_fd):
        self.fd = size_fd                       # blessed asks this descriptor for the terminal size
        self.r, w = os.pipe()
        os.set_blocking(self.r, False)
        self.f = os.fdopen(w, "w", buffering=65536)
        self.seen = ""

    def fileno(self):
        return self.fd

    def write(self, text):
        return self.f.write(text)

    def flush(self):
        self.f.flush()

    def getvalue(self):
        while True:
            try:
                data = os.read(self.r, 65536)
            except BlockingIOError:
                break
            if not data:
                break
            self.seen += data.decode("utf-8", "replace")
        return self.seen

    def close(self):
        for fn in (self.f.close, lambda: os.close(self.r)):
            try:
                fn()
            except OSError:
                pass


class OsShim:
    """records os.pipe() calls of curtsies.input so that real descriptors can be named (and leaks closed afterwards)"""

    def __init__(self):
        self.pipes = []

    def __getattr__(self, name):
        return getattr(os, name)

    def pipe(self):
        r, w = os.pipe()
        self.pipes.append((r, w))
        return r, w


FW = FullscreenWindow      # sizes come from the pty (TIOCSWINSZ), as in real use


def open_fds():
    out = set()
    for n in os.listdir("/proc/self/fd"):
        fd = int(n)
        try:
            os.fstat(fd)
        except OSError:
            continue
        out.add(fd)
    return out


# ------------------------------------------------------------------------------------------------
# cases
# ------------------------------------------------------------------------------------------------

TOGGLES = [("l", termios.ECHO), ("l", termios.ICANON), ("l", termios.ISIG), ("l", termios.IEXTEN),
           ("i", termios.IXON), ("i", termios.ICRNL), ("o", termios.OPOST)]


def mod_attrs(base, spec):
    """spec: dict(toggle=[indices into TOGGLES], vmin, vtime, vstop, vstart)"""
    a = [x if not isinstance(x, list) else list(x) for x in base]
    for i in spec.get("toggle", []):
        kind, bit = TOGGLES[i]
        idx = {"i": 0, "o": 1, "l": 3}[kind]
        a[idx] ^= bit
    cc = a[6]
    for name, k in (("vmin", termios.VMIN), ("vtime", termios.VTIME), ("vstop", termios.VSTOP), ("vstart", termios.VSTART)):
        if name in spec:
            cc[k] = bytes([spec[name]])
    return a


def apply_env_tty(attrs, k):
    """environment change #k of the tty attributes: k < len(TOGGLES) toggles that flag, k = 7 changes VINTR"""
    a = [x if not isinstance(x, list) else list(x) for x in attrs]
    if k < len(TOGGLES):
        kind, bit = TOGGLES[k]
        a[{"i": 0, "o": 1, "l": 3}[kind]] ^= bit
    else:
        a[6][termios.VINTR] = b"\x03" if a[6][termios.VINTR] != b"\x03" else b"\x07"
    return a


def rand_attr_spec(r):
    spec = dict(toggle=sorted(r.sample(range(len(TOGGLES)), r.randint(0, 4))))
    if r.random() < 0.4:
        spec["vmin"] = r.choice([0, 1, 3])
    if r.random() < 0.4:
        spec["vtime"] = r.choice([0, 1, 5])
    if r.random() < 0.3:
        spec["vstop"] = r.choice([0, 19, 20])
    if r.random() < 0.3:
        spec["vstart"] = r.choice([0, 17, 18])
    return spec


CTX_TOKENS = (["(I%d%d" % (a, b) for a in (0, 1) for b in (0, 1)] + ["(F0", "(F1"] +
              ["(C%d%d" % (a, b) for a in (0, 1) for b in (0, 1)] + ["(B", "(N", "(M0", "(M1"])


def gen_body(r, depth, inp_se, hstate, main, budget, canon_risk=False, has_win=False):
    """-> token list (without the closing paren).
    inp_se: sigint_event of the innermost enclosing Input (None = no Input in scope);
    hstate: SIGINT handler installed at this point: 'd' default, 'o' other (SIG_IGN / user / an outer Input's)"""
    toks = []
    for _ in range(r.randint(0, 4)):
        if budget[0] <= 0:
            break
        budget[0] -= 1
        x = r.random()
        in_input = inp_se is not None and not canon_risk
        if x < 0.35 and depth < 3:
            c = r.choice(CTX_TOKENS)
            toks.append(c)
            se, hs, cr = inp_se, hstate, canon_risk or c.startswith("(M")
            if c.startswith("(I"):
                se = c[2] == "1"
                cr = False
                if se and main:
                    hs = "o"
            toks += gen_body(r, depth + 1, se, hs, main, budget, cr, has_win or c[1] in "FC")
            if toks[-1] in ("!", "#raised"):
                return toks
            toks.append(")")
        elif x < 0.65 and in_input:
            k = r.random()
            if k < 0.3:
                toks.append("q0")
            elif k < 0.55:
                toks.append("q1")
            elif k < 0.65:
                toks.append("q4")
            elif k < 0.7:
                toks.append("q5")
            elif k < 0.8:
                return toks + ["q2", "#raised"]
            elif k < 0.85:
                return toks + ["q6", "#raised"]
            elif main and inp_se:
                toks.append("q3")                       # the Input's own handler: comes back as an event
            elif main and hstate == "d":
                return toks + ["q3", "#raised"]         # default handler: KeyboardInterrupt inside select
            else:
                toks.append("q0")
        elif x < 0.77:
            if has_win and r.random() < 0.3:
                toks.append("sz%d" % r.randrange(len(SIZES)))      # render on a resized terminal (0x0, 0xW, Hx0, normal)
                budget.append("resized")
            toks.append("r")
        elif x < 0.8:
            if has_win and "resized" not in budget:
                return toks + ["R%d" % r.choice([0, 1, 1, 2]), "#raised"]     # a write of the render raises
            toks.append("r")
        elif x < 0.9 and in_input:
            toks.append(r.choice(["t", "T", "T"]))
        elif x < 0.97:
            toks.append("t" if in_input else "r")
        else:
            return toks + ["!"]
    return toks


def clean(toks):
    """drop generator markers; a '#raised' marker means the previous request raises: cut the level there"""
    out = []
    for t in toks:
        if t == "#raised":
            continue
        out.append(t)
    return out


def balance(toks):
    """after a raising request nothing else may follow at any enclosing level: close all open contexts"""
    out, depth = [], 0
    i = 0
    while i < len(toks):
        t = toks[i]
        if t == "#raised" or t == "!":
            if t == "!":
                out.append("!")
            out += [")"] * depth
            return out
        out.append(t)
        if t.startswith("("):
            depth += 1
        elif t == ")":
            depth -= 1
        i += 1
    return out


ENV_STEPS = ["et%d" % k for k in range(8)] + ["ef%d" % os.O_APPEND]


def rand_case(r):
    main = r.random() < 0.7
    sig0 = r.choice(["d", "d", "d", "i", "u1", "D", "D"]) if main else "d"
    wake0 = r.random() < 0.3 and main
    top = r.choice(CTX_TOKENS)
    se = (top[2] == "1") if top.startswith("(I") else None
    hs = "d" if sig0 == "d" and not (se and main) else "o"
    budget = [9]
    inner = gen_body(r, 1, se, hs, main, budget, top.startswith("(M"), top[1] in "FC")
    first = [top] + inner + [")"]
    toks = balance(first)
    if toks == first and top[1] != "F" and r.random() < 0.4:
        # use the SAME object again after the environment changed the terminal / flags / handler
        steps = [r.choice(ENV_STEPS) for _ in range(r.randint(1, 2))]
        cur = sig0
        if main and r.random() < 0.5:
            cur = r.choice(["d", "i", "D", "u1", "u2"])
            steps.append("es" + cur)
        hs2 = "d" if cur == "d" and not (se and main) else "o"
        inner2 = gen_body(r, 1, se, hs2, main, [5], top.startswith("(M"), top[1] in "FC")
        toks = balance(first + steps + ["(=0"] + inner2 + [")"])
    return dict(main=int(main), sig0=sig0, wake0=int(wake0), nonblock0=int(r.random() < 0.25), append0=int(r.random() < 0.2),
                attrs=rand_attr_spec(r), given=[rand_attr_spec(r), rand_attr_spec(r)], toks=toks)


def corpus_cases():
    """histories that run first: the seeded mutants C12 once missed"""
    base = dict(wake0=0, nonblock0=0, append0=0, attrs={}, given=[{"toggle": [0, 1]}, {"vmin": 0}], tag="corpus")
    out = []
    # (a) initial disposition SIG_DFL (falsy IntEnum): Input(sigint_event=True) must put it back
    for toks in (["(I10", ")"], ["(I11", "q1", ")"], ["(I10", "q3", ")"], ["(I10", "!", ")"]):
        out.append(dict(base, main=1, sig0="D", toks=toks))
    # (b) the SAME object used twice with the terminal changed in between: the second exit must restore the state of the
    #     second entry (a mutant that keeps the attributes captured at the first entry undoes the change)
    for top in ("(I00", "(I11", "(B", "(M0", "(C10", "(N"):
        for env in (["et0"], ["et7"], ["ef%d" % os.O_APPEND], ["esu2"], ["et1", "ef%d" % os.O_APPEND, "esi"]):
            body = ["q1"] if top[1] == "I" else []
            out.append(dict(base, main=1, sig0="d", toks=[top] + body + [")"] + env + ["(=0"] + body + [")"]))
        out.append(dict(base, main=0, sig0="d", toks=[top, ")", "et0", "ef%d" % os.O_APPEND, "(=0", ")"]))
    # D36: a write inside render_to_terminal raises (hide_cursor=False: the cursor stays hidden after the exit)
    for top in ("(F0", "(F1", "(C00", "(C10", "(C11"):
        for k in (0, 1, 2):
            out.append(dict(base, main=1, sig0="d", toks=[top, "R%d" % k, ")"]))
            out.append(dict(base, main=1, sig0="d", toks=[top, "r", "R%d" % k, ")"]))
    out.append(dict(base, main=1, sig0="d", toks=["(F0", "(I00", "R1", ")", ")"]))
    out.append(dict(base, main=1, sig0="d", toks=["(I00", "(C00", "R1", ")", ")"]))
    # requests that read a paste (the top-up read hits BlockingIOError) / get an empty read (EOF), every Input flag combination,
    # left normally and by exception: status flags identical afterwards, never non-blocking between requests
    for top in ("(I00", "(I01", "(I10", "(I11"):
        for q in ("q4", "q5"):
            for tail in ([], ["!"], ["q0"], [q, "q1"]):
                out.append(dict(base, main=1, sig0="d", toks=[top, q] + tail + [")"]))
        out.append(dict(base, main=0, sig0="d", toks=[top, "q4", "q5", ")"]))
        out.append(dict(dict(base, nonblock0=1), main=1, sig0="d", toks=[top, "q4", ")"]))
    # a paste that raises inside the paste loop (seeded C12-r7m1: a hand-made Nonblocking enter/exit skipped on that path)
    for top in ("(I00", "(I01", "(I10", "(I11"):
        out.append(dict(base, main=1, sig0="d", toks=[top, "q6", ")"]))
        out.append(dict(base, main=1, sig0="d", toks=[top, "q1", "q6", ")"]))
        out.append(dict(base, main=0, sig0="d", toks=[top, "q6", ")"]))
        out.append(dict(base, main=1, sig0="d", toks=["(N", top, "q6", ")", ")"]))
    # ONE context-manager object used in the main thread and then in a worker thread, and the other way round (seeded
    # C12-r7m2: __exit__ keyed on stale wake-up fds instead of is_main_thread()); the full state is judged after each exit.
    # (oracle only: the model runs a whole script in one thread)
    for top in ("(I00", "(I10", "(I11", "(B", "(N", "(M0", "(C10"):
        for env in ([], ["et0"]):
            out.append(dict(base, main=1, sig0="d", toks=[top, ")"] + env + ["(~=0", ")"]))
            out.append(dict(base, main=1, sig0="d", toks=["(~" + top[1:], ")"] + env + ["(=0", ")"]))
            out.append(dict(base, main=1, sig0="d", toks=[top, ")", "(~=0", ")"] + env + ["(=0", ")"]))
        out.append(dict(base, main=1, sig0="d", toks=[top, ")", "(~=0", "!", ")"]))
    # a block-buffered out_stream observed at the descriptor: what the terminal has SEEN after leaving (seeded C12-r8m2: the
    # base window's __exit__ writes normal_cursor without flushing)
    for top in ("(F0", "(F1", "(C00", "(C10", "(C11"):
        for body in ([], ["r"], ["r", "!"]):
            out.append(dict(base, main=1, sig0="d", buffered=1, toks=[top] + body + [")"]))
    # renders (0..2) on terminals of every size, in both window classes, both hide_cursor values, left normally / by exception:
    # the cursor must be visible after leaving (seeded C12-r4m1: an early return on a 0-size terminal skips normal_cursor)
    for top in ("(F0", "(F1", "(C00", "(C10", "(C01", "(C11"):
        for k in range(len(SIZES)):
            for body in ([], ["r"], ["r", "r"]):
                for tail in ([], ["!"]):
                    out.append(dict(base, main=1, sig0="d", toks=[top, "sz%d" % k] + body + tail + [")"]))
        out.append(dict(base, main=1, sig0="d", toks=[top, "r", "sz0", "r", "sz3", ")"]))
        out.append(dict(base, main=0, sig0="d", toks=[top, "sz0", "r", ")"]))
    # D18 and D26 at the same exit (each clause is judged on its own)
    out.append(dict(base, main=1, sig0="d", toks=["(F1", "(I00", "(F0", "q1", "r", "T", ")", "q0", "q0", ")", "(C10", "r", ")", ")"]))
    return out


def fixed_cases():
    cases = []
    for main in (1, 0):
        for top in CTX_TOKENS:
            for body in ([], ["!"], ["r"], ["q0"], ["q1"], ["q2"], ["q3"], ["T"], ["t", "!"], ["q1", "r", "!"]):
                if not top.startswith("(I") and any(b in ("q0", "q1", "q2", "q3", "T", "t") for b in body):
                    continue
                if "q3" in body and not main:
                    continue
                toks = balance([top] + (body[:body.index("q2") + 1] + ["#raised"] if "q2" in body else
                                        body + (["#raised"] if "q3" in body and top.startswith("(I0") else [])) + [")"])
                cases.append(dict(main=main, sig0="d", wake0=0, nonblock0=0, append0=0, attrs={}, given=[{"toggle": [0, 1]}, {"vmin": 0}],
                                  toks=toks, tag="fixed"))
    # nesting / repetition / pre-set wake-up fd (D17) / nested Inputs with both sigint modes
    extra = [
        ["(I10", "(I10", "q1", ")", "q1", ")"], ["(I10", "(I00", "q3", ")", ")"], ["(I00", "(I10", "q3", ")", "q0", ")"],
        ["(I10", ")", "(I10", ")", "(I10", ")"], ["(F1", "(I11", "q1", "r", ")", "r", ")"], ["(C11", "(I10", "q1", "r", ")", ")"],
        ["(F1", "(F1", "r", ")", ")"], ["(F1", "(F1", ")", "r", ")"], ["(F0", "(F1", ")", "(C10", "r", ")", ")"], ["(F0", "r", "(C10", "r", ")", ")"], ["(B", "(N", "(M0", ")", ")", ")"],
        ["(I10", "T", "T", ")"], ["(I01", "T", "q1", "!", ")"], ["(N", "(I00", "q1", ")", ")"], ["(I00", "(N", "q1", ")", ")"],
    ]
    for toks in extra:
        for wake0 in (0, 1):
            for sig0 in ("d", "i", "u1", "D"):
                if "q3" in toks and sig0 != "d":
                    continue
                cases.append(dict(main=1, sig0=sig0, wake0=wake0, nonblock0=0, append0=0, attrs={"toggle": [4]},
                                  given=[{"toggle": [0, 1]}, {"vmin": 0}], toks=balance(toks), tag="fixed"))
    return cases


# ------------------------------------------------------------------------------------------------
# running a script on the real code
# ------------------------------------------------------------------------------------------------

class Runner:
    def __init__(self, case):
        self.case = case
        self.main = bool(case["main"])
        self.snaps = []          # raw observations
        self.events = []         # ("enter"/"op"/"exit", token, snapshot index) for the oracle
        self.objs = []           # context-manager objects in creation order, with their creating token
        self.entries = []        # Input objects in ENTRY order (the model numbers Inputs per entry)
        self.raised = False
        self.problem = None
        self.enter_failed = None
        self.asserts = []        # expectations about return values that failed
        self.op_win = None
        self.op_fds = None

    # -- setup / teardown --
    def setup(self):
        c = self.case
        self.master, self.slave = os.openpty()
        self.scratch_m, self.scratch_s = os.openpty()
        base0 = termios.tcgetattr(self.slave)
        termios.tcsetattr(self.slave, termios.TCSANOW, mod_attrs(base0, c["attrs"]))
        self.base = termios.tcgetattr(self.slave)
        self.given = [self.settle(mod_attrs(base0, g)) for g in c["given"]]
        fl = fcntl.fcntl(self.slave, fcntl.F_GETFL)
        if c["nonblock0"]:
            fl |= os.O_NONBLOCK
        if c["append0"]:
            fl |= os.O_APPEND
        fcntl.fcntl(self.slave, fcntl.F_SETFL, fl)
        self.fl0 = fcntl.fcntl(self.slave, fcntl.F_GETFL)
        self.in_stream = PtyIn(self.slave)
        if c.get("buffered"):
            self.out = BufferedOut(self.slave)
        else:
            self.out = FailingOut()
            self.out.fd = self.slave
        fcntl.ioctl(self.slave, termios.TIOCSWINSZ, struct.pack("HHHH", 4, 12, 0, 0))
        self.user_pipe = None
        self.old_sig = signal.getsignal(signal.SIGINT)
        self.old_wake = None
        self.sig_map = {"d": signal.default_int_handler, "i": signal.SIG_IGN, "D": signal.SIG_DFL, "u1": user_handler_1,
                        "u2": user_handler_2}
        signal.signal(signal.SIGINT, self.sig_map[c["sig0"]])
        if c["wake0"]:
            self.user_pipe = os.pipe()
            os.set_blocking(self.user_pipe[1], False)
            self.old_wake = signal.set_wakeup_fd(self.user_pipe[1], warn_on_full_buffer=False)
        self.shim = OsShim()
        self._real_os = cinput.os
        cinput.os = self.shim
        self.term_cache = {"base": self.base}
        self.baseline = open_fds()

    def settle(self, attrs):
        termios.tcsetattr(self.scratch_s, termios.TCSANOW, attrs)
        return termios.tcgetattr(self.scratch_s)

    def teardown(self):
        cinput.os = self._real_os
        if isinstance(self.out, BufferedOut):
            self.out.close()
        try:
            if self.case["wake0"]:
                signal.set_wakeup_fd(self.old_wake if self.old_wake is not None else -1)
            else:
                signal.set_wakeup_fd(-1)
        except ValueError:
            pass
        signal.signal(signal.SIGINT, self.old_sig)
        for r, w in self.shim.pipes:
            for fd in (r, w):
                try:
                    os.close(fd)
                except OSError:
                    pass
        for fd in (self.master, self.slave, self.scratch_m, self.scratch_s) + (self.user_pipe or ()):
            try:
                os.close(fd)
            except OSError:
                pass

    # -- observation --
    def eval_term(self, term):
        if term in self.term_cache:
            return self.term_cache[term]
        if term.startswith("g"):
            v = self.given[int(term[1:])]
        elif term.startswith("env"):
            fn, inner = term.split("(", 1)
            v = self.settle(apply_env_tty(self.eval_term(inner[:-1]), int(fn[3:])))
        else:
            fn, inner = term.split("(", 1)
            x = self.eval_term(inner[:-1])
            termios.tcsetattr(self.scratch_s, termios.TCSANOW, x)
            if fn == "cb":
                tty.setcbreak(self.scratch_s, termios.TCSANOW)
            else:
                a = termios.tcgetattr(self.scratch_s)
                a[-1][termios.VSTOP] = 0
                a[-1][termios.VSTART] = 0
                termios.tcsetattr(self.scratch_s, termios.TCSANOW, a)
            v = termios.tcgetattr(self.scratch_s)
        self.term_cache[term] = v
        return v

    MODE_RE = re.compile(r"\x1b\[\?([0-9;]*)([hl])")          # DEC private mode set / reset
    QUIET_RE = re.compile(r"\x1b\[6n|\x1b\[2[23];[0-9]*;[0-9]*t|\x1b[78]")   # cursor report query, title stack, save/restore cursor

    def screen_state(self):
        """Interpret the window output so far by TOKENISING it (not by matching blessed's capability strings):
        DECTCEM (?25 h/l) is the cursor, ?1049 / ?1047 / ?47 h/l the alternate screen, whatever combination they come in
        (ESC[?25h alone, ESC[?12l ESC[?25h, ESC[?12;25h ...); everything that is neither a mode switch nor a pure query is
        output that lands on the screen.  -> (cursor visible, alternate screen active, writes that reached the main screen)"""
        s = self.out.getvalue()
        cur, alt, main_writes = True, False, 0
        i = 0
        while i < len(s):
            m = self.MODE_RE.match(s, i)
            if m:
                on = m.group(2) == "h"
                for p in m.group(1).split(";"):
                    if p == "25":
                        cur = on
                    elif p in ("1049", "1047", "47"):
                        alt = on
                i = m.end()
                continue
            m = self.QUIET_RE.match(s, i)
            if m:
                i = m.end()
                continue
            if not alt:
                main_writes += 1
            i += 1
        return cur, alt, main_writes

    def snapshot(self):
        cur, alt, mw = self.screen_state()
        sig = signal.getsignal(signal.SIGINT)
        if threading.current_thread() is threading.main_thread():
            wake = signal.set_wakeup_fd(-1)
            if wake != -1:
                signal.set_wakeup_fd(wake, warn_on_full_buffer=False)
        else:
            wake = None            # only the main thread can probe the wake-up fd
        snap = dict(tty=termios.tcgetattr(self.slave), fl=fcntl.fcntl(self.slave, fcntl.F_GETFL), sig=sig, wake=wake,
                    fds=open_fds() - self.baseline, cur=cur, alt=alt, main_writes=mw, npipes=len(self.shim.pipes), nentries=len(self.entries))
        self.snaps.append(snap)
        return len(self.snaps) - 1

    # -- execution --
    def make(self, tok):
        """-> (object, creating token).  `(=k` re-uses object k (created earlier in this script and left since)."""
        if tok.startswith("(="):
            obj, otok = self.objs[int(tok[2:])]
            if otok[1] == "C":
                os.write(self.master, b"\x1b[3;1R")
            return obj, otok
        k = tok[1]
        if k == "I":
            obj = cinput.Input(in_stream=self.in_stream, sigint_event=tok[2] == "1", disable_terminal_start_stop=tok[3] == "1")
        elif k == "F":
            obj = FW(out_stream=self.out, hide_cursor=tok[2] == "1")
            self.note_strings(obj)
        elif k == "C":
            obj = CursorAwareWindow(out_stream=self.out, in_stream=self.in_stream, hide_cursor=tok[2] == "1", keep_last_line=tok[3] == "1")
            self.note_strings(obj)
            os.write(self.master, b"\x1b[3;1R")      # the terminal's answer to the cursor query of __enter__
        elif k == "B":
            obj = Cbreak(self.in_stream)
        elif k == "N":
            obj = Nonblocking(self.in_stream)
        elif k == "M":
            obj = Termmode(self.in_stream, self.given[int(tok[2:])])
        else:
            raise KeyError(tok)
        self.objs.append((obj, tok))
        return obj, tok

    t_strings = dict(hide="\x1b[?25l", show="\x1b[?12l\x1b[?25h", alt_on="\x1b[?1049h", alt_off="\x1b[?1049l")

    def note_strings(self, w):
        try:
            t = w.t
        except AttributeError:          # the blessed terminal is kept elsewhere: the xterm defaults above stay in force
            return
        Runner.t_strings = dict(hide=str(t.hide_cursor), show=str(t.normal_cursor), alt_on=str(t.enter_fullscreen),
                                alt_off=str(t.exit_fullscreen))

    def do_op(self, tok, stack):
        inp = next((o for t, o in reversed(stack) if t[1] == "I"), None)
        inp_tok = next((t for t, o in reversed(stack) if t[1] == "I"), None)
        win = next((o for t, o in reversed(stack) if t[1] in "FC"), None)
        self.op_win = next(((t, id(o)) for t, o in reversed(stack) if t[1] in "FC"), None)
        self.op_fds = None
        if tok == "r":
            if win is not None:
                win.render_to_terminal([fmtstr("ab")])
            return
        if tok.startswith("R"):        # a render whose (k+1)-th write raises
            if win is not None:
                self.out.fail_in = int(tok[1:]) + 1
                try:
                    win.render_to_terminal([fmtstr("ab")])
                finally:
                    self.out.fail_in = None
            return
        if tok.startswith("sz"):       # the terminal is resized (possibly to nothing)
            rows, cols = SIZES[int(tok[2:])]
            fcntl.ioctl(self.slave, termios.TIOCSWINSZ, struct.pack("HHHH", rows, cols, 0, 0))
            return
        if tok.startswith("et"):       # somebody else changes the tty attributes
            termios.tcsetattr(self.slave, termios.TCSANOW, apply_env_tty(termios.tcgetattr(self.slave), int(tok[2:])))
            return
        if tok.startswith("ef"):       # ... the file status flags
            fcntl.fcntl(self.slave, fcntl.F_SETFL, fcntl.fcntl(self.slave, fcntl.F_GETFL) ^ int(tok[2:]))
            return
        if tok.startswith("es"):       # ... the SIGINT handler
            signal.signal(signal.SIGINT, self.sig_map[tok[2:]])
            return
        if inp is None:
            return
        if tok == "t":
            inp.event_trigger(Ev)
            inp.scheduled_event_trigger(SEv)
        elif tok == "T":
            n0 = len(self.shim.pipes)
            inp.threadsafe_event_trigger(Ev)
            self.op_fds = {fd for pair in self.shim.pipes[n0:] for fd in pair}      # the trigger's own pipe
        elif tok == "q0":
            inp.send(0)
        elif tok == "q1":
            os.write(self.master, b"a")
            inp.send(0.5)
        elif tok == "q2":
            os.write(self.master, b"\xe2\x82")
            inp.send(0.5)
        elif tok == "q4":
            # a burst above the paste threshold: first read gets it, the paste loop's top-up read finds the pty empty
            # (BlockingIOError inside `with Nonblocking`) - the stream must be blocking again afterwards
            os.write(self.master, b"abcdefghijklmnop"[:max(cevents.MAX_KEYPRESS_SIZE + 2, (inp.paste_threshold or 8) + 2)])
            got = inp.send(0.5)
            if not isinstance(got, cevents.PasteEvent):
                self.asserts.append("q4: a burst above the paste threshold came back as %r, not a paste event" % (got,))
        elif tok == "q6":
            # a paste burst that ENDS inside a multi-byte character: find_key raises in the paste loop (a known finding of
            # C08) - C12 judges only that the stream is blocking again after the raising request and after leaving
            os.write(self.master, b"abcdefghijkl\xe2\x82")
            inp.send(0.5)
        elif tok == "q5":
            # the stream is readable but the read returns nothing (end of file): the Input's stream is, for this one request,
            # the read end of a pipe whose writer is closed; afterwards that descriptor must not be left non-blocking either
            pr, pw = os.pipe()
            os.close(pw)
            keep, self.in_stream.fd = self.in_stream.fd, pr
            try:
                got = inp.send(0.5)
                if got is not None:
                    self.asserts.append("q5: request at end of file returned %r" % (got,))
                if fcntl.fcntl(pr, fcntl.F_GETFL) & os.O_NONBLOCK:
                    self.asserts.append("q5: after the request the stream it read from is left in non-blocking mode")
            finally:
                self.in_stream.fd = keep
                os.close(pr)
        elif tok == "q3":
            pid = os.getpid()
            th = threading.Timer(0.03, lambda: os.kill(pid, signal.SIGINT))
            th.start()
            try:
                got = inp.send(0.6)
                # the Input's own handler is installed during the request: SIGINT must come back as exactly that event
                if self.main and inp_tok[2] == "1" and not isinstance(got, cevents.SigIntEvent):
                    self.asserts.append("q3 under sigint_event=True returned %r instead of a SigIntEvent" % (got,))
            finally:
                try:
                    th.join(2.0)
                    time.sleep(0)        # let a late signal be handled here rather than somewhere in the harness
                except KeyboardInterrupt:
                    pass
        else:
            raise KeyError(tok)

    def exec_level(self, toks, i, stack):
        """execute tokens from index i until the matching ')' (returns index after it) - exceptions propagate"""
        while i < len(toks):
            tok = toks[i]
            if tok == ")":
                return i + 1
            if tok == "!":
                raise Boom()
            if tok.startswith("(~"):
                # this whole context block (enter, body, exit) runs in a WORKER thread; the script goes on in this one
                j = self.skip(toks, i + 1)
                sub = ["(" + tok[2:]] + toks[i + 1:j]
                box = []

                def work():
                    try:
                        self.exec_level(sub, 0, stack)
                    except BaseException as e:  # noqa: BLE001
                        box.append(e)
                th = threading.Thread(target=work, daemon=True)
                th.start()
                th.join(15)
                if th.is_alive():
                    self.problem = "a context block in a worker thread did not finish within 15 s"
                    raise Boom()
                if box:
                    raise box[0]
                i = j
                continue
            if tok.startswith("("):
                cm, tok = self.make(tok)
                j = self.skip(toks, i + 1)
                before = len(self.snaps) - 1
                entered = False
                try:
                    with cm:
                        entered = True
                        if tok[1] == "I":
                            self.entries.append(cm)
                        self.events.append(("enter", tok, self.snapshot(), before, id(cm)))
                        self.exec_level(toks, i + 1, stack + [(tok, cm)])
                finally:
                    if entered:
                        self.events.append(("exit", tok, self.snapshot(), before, id(cm)))
                    else:
                        self.enter_failed = tok
                i = j
            else:
                before = len(self.snaps) - 1
                try:
                    self.do_op(tok, stack)
                finally:
                    self.events.append(("op", tok, self.snapshot(), before, (self.op_win, self.op_fds)))
                i += 1
        return i

    @staticmethod
    def skip(toks, i):
        depth = 1
        while i < len(toks) and depth:
            if toks[i].startswith("("):
                depth += 1
            elif toks[i] == ")":
                depth -= 1
            i += 1
        return i

    def body(self):
        try:
            self.snapshot()                      # snapshot 0: the state before anything
            self.exec_level(self.case["toks"], 0, [])
        except Boom:
            self.raised = True
        except KeyboardInterrupt:
            self.raised = True
        except ValueError as e:
            if "Couldn't identify key sequence" in str(e):
                self.raised = True
            else:
                self.problem = "unexpected %s: %s" % (type(e).__name__, e)
        except OSError as e:
            if "write failed (injected)" in str(e):
                self.raised = True
            else:
                self.problem = "unexpected %s: %s" % (type(e).__name__, e)
        except BaseException as e:  # noqa: BLE001
            self.problem = "unexpected %s: %s" % (type(e).__name__, e)
        if self.enter_failed and not self.problem:
            self.problem = "__enter__ of %s raised" % self.enter_failed

    def run(self):
        self.setup()
        try:
            if self.main:
                self.body()
            else:
                th = threading.Thread(target=self.body, daemon=True)
                th.start()
                th.join(15)
                if th.is_alive():
                    self.problem = "script did not finish within 15 s"
            # final observation of the wake-up fd from the main thread (non-main scripts cannot probe it)
            w = signal.set_wakeup_fd(-1)
            if w != -1:
                signal.set_wakeup_fd(w, warn_on_full_buffer=False)
            self.final_wake = w
        finally:
            self.teardown()
        return self

    # -- canonical reply in the driver's syntax --
    def name_fd(self, fd, npipes=None):
        """model name of a real descriptor: the most recent os.pipe() result with that number (numbers are reused)"""
        if fd is None:
            return "?"
        if fd == -1:
            return "N"
        pipes = self.shim.pipes if npipes is None else self.shim.pipes[:npipes]
        for k in range(len(pipes) - 1, -1, -1):
            r, w = pipes[k]
            if fd == r:
                return str(1000 + 2 * k)
            if fd == w:
                return str(1001 + 2 * k)
        if self.user_pipe and fd == self.user_pipe[1]:
            return str(USER_WAKE)
        return "fd%d" % fd

    def name_sig(self, h, nentries=None):
        for k, v in self.sig_map.items():
            if h is v:
                return k
        ents = self.entries if nentries is None else self.entries[:nentries]
        for i in range(len(ents) - 1, -1, -1):       # the model numbers Inputs per ENTRY: latest entry of that object
            if h == ents[i].sigint_handler:
                return "I%d" % i
        return "?%r" % (h,)

    def tty_matches(self, observed, term):
        try:
            return observed == self.eval_term(term)
        except Exception:  # noqa: BLE001
            return False


def model_tokens(toks):
    """`(=k` (re-use object k) is, for the model, entering the same Ctx again"""
    created = [t for t in toks if t.startswith("(") and not t.startswith("(=")]
    return [created[int(t[2:])] if t.startswith("(=") else t for t in toks]


def line(c):
    r = c["_runner"]
    return " ".join(["ctxsim", str(c["main"]), str(r.fl0), str(os.O_NONBLOCK), c["sig0"],
                     str(USER_WAKE) if c["wake0"] else "N"] + model_tokens(c["toks"]))


def compare(c, model_reply):
    """-> None if the observations agree with the model's predicted snapshots, else a description.
    (tty attributes are compared by evaluating the model's symbolic term on a scratch pty)"""
    r = c["_runner"]
    if r.problem:
        return "runner: " + r.problem
    if model_reply == "bad-op" or " | raised=" not in (" " + model_reply):
        return "model rejected the script: %r" % model_reply
    body, tail = (" " + model_reply).rsplit(" | raised=", 1)
    preds = body.split()
    obs = r.snaps[1:]
    if len(preds) != len(obs):
        return "model predicts %d steps, the real run took %d" % (len(preds), len(obs))
    if (tail == "1") != r.raised:
        return "model raised=%s, real run raised=%s" % (tail, r.raised)
    r.setup_eval()
    try:
        for k, (p, o) in enumerate(zip(preds, obs)):
            f = dict(x.split("=", 1) for x in p.split(";"))
            got = dict(fl=str(o["fl"]), sig=r.name_sig(o["sig"], o["nentries"]), wake=r.name_fd(o["wake"], o["npipes"]), nfds=str(len(o["fds"])),
                       cur=str(int(o["cur"])), alt=str(int(o["alt"])), main=str(int(o["main_writes"] > 0)))
            f["main"] = str(int(int(f["main"]) > 0))
            if got["wake"] == "?":
                f["wake"] = "?"
            for key in got:
                if got[key] != f[key]:
                    return "step %d (%s): %s observed %s, model %s" % (k, r.events[k][0] + " " + r.events[k][1], key, got[key], f[key])
            if not r.tty_matches(o["tty"], f["tty"]):
                return "step %d (%s): tty attributes differ from %s" % (k, r.events[k][0] + " " + r.events[k][1], f["tty"])
    finally:
        r.teardown_eval()
    return None


def _setup_eval(self):
    self.scratch_m, self.scratch_s = os.openpty()


def _teardown_eval(self):
    os.close(self.scratch_m)
    os.close(self.scratch_s)


Runner.setup_eval = _setup_eval
Runner.teardown_eval = _teardown_eval


# ------------------------------------------------------------------------------------------------
# oracle: before/after equality (property text), on the raw observations
# ------------------------------------------------------------------------------------------------

def oracle(c):
    """-> list of (what, footprint)"""
    r = c["_runner"]
    out = []
    if r.problem:
        return [("script could not be executed: " + r.problem, None)]
    toks = c["toks"]
    # leaks expected from D18: count T operations executed inside each context (by position in the event list)
    enters = []
    for k, (kind, tok, si, before, _w) in enumerate(r.events):
        if kind == "enter":
            enters.append((k, tok, before))
        elif kind == "exit":
            if not enters:
                out.append(("exit of %s without a recorded entry" % tok, None))
                continue
            k0, tok0, before0 = enters.pop()
            a, b = r.snaps[before0], r.snaps[si]
            inside = r.events[k0 + 1:k]
            my_id = _w
            trigger_fds = set()
            for e in inside:
                if e[0] == "op" and e[1] == "T" and e[4][1]:
                    trigger_fds |= e[4][1]
            how = "by exception" if any(e[1] == "!" for e in inside) or r.raised else "normally"
            items = []          # (what, footprint): every clause is judged on its own
            if a["tty"] != b["tty"]:
                items.append(("tty attributes differ", None))
            if a["fl"] != b["fl"]:
                items.append(("file status flags %#o -> %#o" % (a["fl"], b["fl"]), None))
            if a["sig"] != b["sig"]:
                items.append(("SIGINT handler %r -> %r" % (a["sig"], b["sig"]), None))
            if a["wake"] is not None and b["wake"] is not None and a["wake"] != b["wake"]:   # None: observed in a worker thread
                items.append(("signal wake-up fd %r -> %r" % (a["wake"], b["wake"]), None))
            if a["fds"] != b["fds"]:
                leaked, closed = b["fds"] - a["fds"], a["fds"] - b["fds"]
                # footprint D18: nothing closed, and the leaked descriptors are exactly the pipes opened by the
                # threadsafe_event_trigger calls made inside this context
                fp = "D18" if (not closed and leaked and leaked == trigger_fds) else None
                items.append(("descriptors leaked: %d" % len(leaked) if leaked else "descriptors closed that were open before", fp))
            # footprint D36: a render of THIS window, or of a window entered inside it, created with hide_cursor=False,
            # raised at a write after the first one
            nested_ids = {my_id} | {e[4] for e in inside if e[0] == "enter"}
            crash36 = any(e[0] == "op" and e[1].startswith("R") and int(e[1][1:]) >= 1 and e[4][0] is not None
                          and e[4][0][0][2] == "0" and e[4][0][1] in nested_ids for e in inside)
            if tok0[1] in "FC" and tok0[2] == "1" and not b["cur"]:
                items.append(("cursor still hidden", None))
            if tok0[1] in "FC" and a["cur"] and not b["cur"]:      # only windows touch the cursor
                items.append(("cursor was visible before, hidden after", "D36" if crash36 else None))
            if tok0[1] == "F" and b["alt"]:
                items.append(("alternate screen still active", None))
            if tok0[1] in "FC" and not a["alt"] and b["alt"]:
                items.append(("alternate screen active after, not before", None))
            if tok0[1] == "F" and b["main_writes"] != a["main_writes"]:
                # footprint D26: a FullscreenWindow was entered and left inside this one before the first write
                # that reached the main screen
                prev, inner_left = r.snaps[r.events[k0][2]]["main_writes"], False
                for e in inside:
                    if r.snaps[e[2]]["main_writes"] != prev:
                        break
                    if e[0] == "exit" and e[1][1] == "F":
                        inner_left = True
                items.append(("main screen written to while the FullscreenWindow context was active", "D26" if inner_left else None))
            for what, fp in items:
                out.append(("leaving %s (%s): %s" % (tok0, how, what), fp))
        elif kind == "op" and tok.startswith("q"):
            a, b = r.snaps[before], r.snaps[si]
            if (a["fl"] ^ b["fl"]) & os.O_NONBLOCK:
                out.append(("after request %s the stream's O_NONBLOCK bit changed (%#o -> %#o)" % (tok, a["fl"], b["fl"]), None))
    for msg in r.asserts:
        out.append((msg, None))
    if r.main and r.snaps and r.snaps[0]["wake"] is not None and r.final_wake != r.snaps[0]["wake"]:
        out.append(("signal wake-up fd after the whole script %r, before it %r" % (r.final_wake, r.snaps[0]["wake"]), None))
    if not r.main and r.final_wake != -1:
        out.append(("wake-up fd set after a script run in a non-main thread", None))
    return out


# ------------------------------------------------------------------------------------------------

def footprint(c, what):
    return None


def strip(c):
    return {k: v for k, v in c.items() if not k.startswith("_")}


def mk_cases(ctx):
    cases = corpus_cases() + fixed_cases()
    ctx.exhaustive.append("every context x flag combination x 10 bodies x both threads + nesting/repetition set: %d scripts" % len(cases))
    cases += [rand_case(ctx.rng) for _ in range(2500 if ctx.thorough else 500)]
    return cases


def run_cases(ctx, cases, tie=True):
    # warm-up (imports, blessed/curses setup, lazily opened descriptors) so that the fd baseline is stable
    Runner(dict(main=1, sig0="d", wake0=0, nonblock0=0, append0=0, attrs={}, given=[{}, {}], toks=["(F1", "r", ")", "(C10", ")", "(I10", "q1", ")"])).run()
    for c in cases:
        c["_runner"] = Runner(c).run()
    all_cases = cases
    cases = [c for c in all_cases if not any(t.startswith("(~") for t in c["toks"])]   # the model runs one thread per script
    if tie:
        import lib
        lines = [line(c) for c in cases]
        t = ctx.ties.setdefault("C12/ctxsim", dict(compared=0, disagreements=0))
        try:
            replies = lib.run_driver(lines)
        except lib.InfraError as e:
            t["driver_error"] = str(e)
            ctx.disagreements.append(("C12/ctxsim", None, None, "driver unavailable: %s" % e))
            replies = None
        if replies is not None:
            for c, ln, rep in zip(cases, lines, replies):
                t["compared"] += 1
                d = compare(c, rep)
                if d:
                    t["disagreements"] += 1
                    if len(ctx.disagreements) < 20:
                        ctx.disagreements.append(("C12/ctxsim", strip(c), d, ln + " -> " + rep))
    for c in all_cases:
        ctx.count(strip(c), nontrivial=any(t.startswith("(") for t in c["toks"]), tag=c.get("tag", "random"))
        for t in c["toks"]:
            ctx.dist["tok:" + (t[:2] if t.startswith("(") else t)] += 1
        for what, fp in oracle(c):
            ctx.violation(what, strip(c), fp)


def check(ctx):
    run_cases(ctx, mk_cases(ctx))


def search(ctx):
    if ctx.thorough:
        return
    ctx.thorough = True
    run_cases(ctx, [rand_case(ctx.rng) for _ in range(1500)], tie=False)


def replay(payload):
    c = payload["case"]
    c["_runner"] = Runner(c).run()
    import lib
    rep = lib.run_driver([line(c)])[0]
    return dict(case=strip(c), line=line(c), model=rep, correspondence=compare(c, rep), oracle=oracle(c),
                events=[(e[0], e[1]) for e in c["_runner"].events])
