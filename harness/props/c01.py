"""C01 - str(FmtStr) displays exactly its characters and formatting, then resets."""
import itertools
import wire
import sgrterm
from wire import mk_fmt
from props.common import chunks_for, guarded, PALETTE, api_pool

PROP = "C01"
MODULES = ["Curtsies.Properties.C01"]
SOURCES = {"curtsies/formatstring.py": ["Chunk.color_str", "FmtStr.__str__", "Chunk.__str__", "<module>"], "curtsies/termformatconstants.py": ["seq", "<module>"]}
RULE = ("exhaustive: all 59 049 attribute dicts (9 fg x 9 bg x 3^6 styles, explicit False included) on a four-run string "
        "(text with newline+tab, unformatted run, empty run, wide+combining run); str(f) compared string-for-string with "
        "the model's `render`, and fed to the independent SGR reader (Python mirror of Spec/Sgr.lean, itself cross-checked "
        "against the Lean spec through the driver and against pyte on a sample); plus seeded random multi-run strings. "
        "non-trivial = distinct attribute dicts / strings with at least one active attribute")
ASSUMPTIONS = ["text free of ESC (0x1b) and 8-bit CSI (0x9b), as the property's quantifier says",
               "Python's sorted() order of the eight attribute names is the model's field order (checked by the string-level tie)"]
TRUSTED = ["Spec/Sgr.lean is my reading of ECMA-48 SGR (0,1,2,3,4,5,7,30-37,39,40-47,49, and the style-off codes 22,23,24,25,27 which curtsies does not emit today); it displays every character other than ESC and U+009B as a cell, "
           "including C0 controls and the other C1 controls (U+0080-U+009F: a terminal honouring 8-bit controls would interpret U+0090/U+009D etc.) - the property's "
           "domain excludes only ESC/CSI introducers, and so does the theorem; pyte is a second opinion (colour names, styles except faint, final pen) on ASCII runs "
           "for every 7th attribute dict"]

STYLES = ("blink", "bold", "dark", "invert", "italic", "underline")


def all_atts():
    cols_f = [None] + list(range(30, 38))
    cols_b = [None] + list(range(40, 48))
    for fg, bg in itertools.product(cols_f, cols_b):
        for vals in itertools.product((None, False, True), repeat=6):
            d = {}
            if fg is not None:
                d["fg"] = fg
            if bg is not None:
                d["bg"] = bg
            for k, v in zip(STYLES, vals):
                if v is not None:
                    d[k] = v
            yield d


def mk_cases(ctx):
    cases = []
    stride = 1 if ctx.thorough else 1
    for i, a in enumerate(all_atts()):
        other = PALETTE[i % len(PALETTE)]
        cases.append([("a\n\tb", a), ("c", {}), ("", a), ("Ｅé", other)])
    ctx.exhaustive.append("all 59049 attribute dicts on a four-run string")
    # sizes beyond 256 and repeated equal runs (identity-vs-equality slips, caches keyed by value)
    long_text = "".join("abcdefghij"[i % 10] for i in range(300)) + "\n" + "m0[;" * 5
    for a in list(itertools.islice(all_atts(), 0, None, 1301)):
        cases.append([(long_text, a), ("-", {"fg": 31}), (long_text, a), ("-", {"fg": 31})] + [("x", a)] * 260)
    r = ctx.rng
    pool = list(itertools.islice(all_atts(), 0, None, 97))
    alphabet = "ab \n\t\rＥ́x~[m;0"
    for _ in range(20000 if ctx.thorough else 3000):
        ch = []
        for _ in range(r.randint(0, 5)):
            ch.append(("".join(r.choice(alphabet) for _ in range(r.randint(0, 4))), dict(r.choice(pool))))
        cases.append(ch)
    return cases


def line(c):
    return "render " + wire.enc_chunks(c)


def impl(c):
    return guarded(lambda: "ok " + wire.enc_text(str(mk_fmt(c))))


def oracle_on(s, c):
    """the property on the real string s = str(f)"""
    cells, final, ctls, mode = sgrterm.display(s)
    want = wire.eff_cells_of_chunks(c)
    if cells != want:
        return "displayed cells differ from the characters/formatting of f: got %r want %r" % (cells[:6], want[:6])
    if final != ():
        return "graphic state not back at default at the end: %r" % (final,)
    if ctls:
        return "string contains something other than supported SGR sequences: %r" % (ctls,)
    if mode != "ground":
        return "string ends inside an escape sequence"
    return None


def fmt_display(cells, final, ctls, mode):
    """reply syntax of the driver op `display`"""
    enc = lambda st: wire.enc_atts(dict(st))
    cs = ";".join(wire.enc_text(ch) + "|" + enc(st) for ch, st in cells) or "-"
    return "ok %s %s %s %s" % (cs, enc(final) or ".", ",".join(ctls) or ".", mode)


def tie_display(ctx, name, cases, outs):
    """Property-level correspondence: the Lean spec `display` (Spec/Sgr.lean) applied to the string the REAL code
    produced must give what C01_display proves for the model's render: the effective cells of f, default final state,
    nothing but SGR, ground mode.  Unlike the byte-for-byte tie this survives an equivalent re-encoding of the string."""
    todo = [(c, o) for c, o in zip(cases, outs) if not any("\x1b" in t or "\x9b" in t for t, _ in c)]
    ctx.tie(name, todo,
            lambda co: ("display " + wire.enc_tf(wire.dec_text(co[1][3:]))) if co[1].startswith("ok ") else "display-unavailable",
            lambda co: fmt_display(wire.eff_cells_of_chunks(co[0]), (), [], "ground"))


def check(ctx):
    cases = mk_cases(ctx)
    # byte-for-byte against the model's render: more than the property needs (representation level)
    outs = ctx.tie("C01/render", cases, line, impl, level="representation")
    tie_display(ctx, "C01/display-of-real-output", cases, outs)
    for c, o in zip(cases, outs):
        nontriv = any(any(v is not False for v in a.values()) for _, a in c)
        ctx.count(c, nontrivial=nontriv, tag="runs=%d" % len(c))
        if not o.startswith("ok "):
            ctx.violation("str(f) raised: " + o, c)
            continue
        w = oracle_on(wire.dec_text(o[3:]), c)
        if w:
            ctx.violation(w, c)
    # FmtStr values built through the public API with observations interleaved ("every FmtStr constructible
    # through the public API"): str(f) must display what f's runs say, whatever was cached on the way
    api_cases, api_objs = [], []
    for _ in range(1500 if ctx.thorough else 300):
        pool, _log = api_pool(ctx.rng, steps=10)
        for f in pool:
            ch = wire.fmt_chunks(f)
            try:
                wire.enc_chunks(ch)
            except wire.Unencodable as e:
                ctx.violation("a value built through the public API carries an attribute outside the legal ones: %r" % (e,), repr(ch))
                continue
            api_cases.append(ch)
            api_objs.append(f)
    strs = {}

    def impl_obj(i_c):
        i, _ = i_c
        return guarded(lambda: "ok " + wire.enc_text(str(api_objs[i])))
    outs2 = ctx.tie("C01/render-api-built", list(enumerate(api_cases)), lambda ic: line(ic[1]), impl_obj, level="representation")
    tie_display(ctx, "C01/display-of-real-output-api-built", api_cases, outs2)
    for c, o in zip(api_cases, outs2):
        ctx.count(c, nontrivial=bool(c), tag="api-built")
        if any("\x1b" in t or "\x9b" in t for t, _ in c):
            continue
        w = oracle_on(wire.dec_text(o[3:]), c) if o.startswith("ok ") else "str(f) raised " + o
        if w:
            ctx.violation("api-built value: " + w, c)
    # a first render interrupted by an exception (KeyboardInterrupt from SIGINT at the k-th run) must not leave a
    # partial terminal string behind: the next str(f) displays all of f
    import curtsies.formatstring as _F
    orig_str = _F.Chunk.__str__
    n_int = 0
    for c in cases[:: max(1, len(cases) // 150)] + api_cases[:60]:
        if len(c) < 2 or any("\x1b" in t or "\x9b" in t for t, _ in c):
            continue
        for k in range(1, len(c) + 1):
            f = mk_fmt(c)
            count = [0]

            def patched(self, _k=k, _count=count):
                _count[0] += 1
                if _count[0] == _k:
                    raise KeyboardInterrupt
                return orig_str(self)
            _F.Chunk.__str__ = patched
            try:
                try:
                    str(f)
                except KeyboardInterrupt:
                    pass
            finally:
                _F.Chunk.__str__ = orig_str
            n_int += 1
            try:
                w = oracle_on(str(f), c)
            except Exception as e:  # noqa: BLE001
                w = "str(f) raised %r" % (e,)
            ctx.count(("interrupted", k, c), nontrivial=True, tag="interrupted-render")
            if w:
                ctx.violation("after a render interrupted at run %d: %s" % (k, w), dict(chunks=c, interrupted_at_run=k))
    ctx.note("interrupted-render cases: %d" % n_int)
    # cross-check the Python mirror of the SGR spec against the Lean spec (driver op `display`) and pyte
    sample = [wire.dec_text(o[3:]) for o in outs[::37] if o.startswith("ok ")]
    sample += ["\x1b[1;31;44mx\x1b[mz", "\x1b[38;5;1mq", "a\x1b[2Ab", "\x9b31mx", "\x1b[;my", "\x1bAz", "x\x1b[3",
               "\x1b[1;2;3;4;5;7ma\x1b[22mb\x1b[23;24mc\x1b[25md\x1b[27me\x1b[21mf\x1b[26mg\x1b[1mh\x1b[22;31mi"]

    def mirror(s):
        return fmt_display(*sgrterm.display(s))
    ctx.tie("C01/sgr-spec-mirror", sample, lambda s: "display " + wire.enc_tf(s), mirror)
    # second opinion independent of my reading of SGR: pyte (a terminal emulator) on ASCII runs, every 7th attribute
    # dict; compares character, colour NAMES, every style pyte knows (it has no faint/dark) and the final pen.
    try:
        import pyte
    except ImportError:
        ctx.note("pyte not importable; second opinion skipped")
        return
    PYTE_COL = ("black", "red", "green", "brown", "blue", "magenta", "cyan", "white")
    cells_cmp, bad, first_bad = 0, 0, None
    for i, a in enumerate(all_atts()):
        if i % 7:
            continue
        c = [("ab", a), ("c", {}), ("de", PALETTE[i % len(PALETTE)])]
        try:
            s = str(mk_fmt(c))
        except Exception:  # noqa: BLE001 - reported by the main loop above
            continue
        scr = pyte.Screen(20, 2)
        pyte.Stream(scr).feed(s)
        k = 0
        for text, atts in c:
            d = {kk: v for kk, v in atts.items() if v is not False}
            for ch in text:
                pc = scr.buffer[0][k]
                k += 1
                cells_cmp += 1
                want_fg = PYTE_COL[d["fg"] - 30] if "fg" in d else "default"
                want_bg = PYTE_COL[d["bg"] - 40] if "bg" in d else "default"
                ok = (pc.data == ch and pc.fg == want_fg and pc.bg == want_bg and pc.bold == d.get("bold", False)
                      and pc.italics == d.get("italic", False) and pc.underscore == d.get("underline", False)
                      and pc.reverse == d.get("invert", False) and pc.blink == d.get("blink", False))
                if not ok:
                    bad += 1
                    first_bad = first_bad or (c, k - 1)
        pen = scr.cursor.attrs
        cells_cmp += 1
        if not (pen.fg == "default" and pen.bg == "default" and not pen.bold and not pen.italics and not pen.underscore
                and not pen.reverse and not pen.blink):
            bad += 1
            first_bad = first_bad or (c, "final pen")
    ctx.ties["C01/pyte-second-opinion"] = dict(compared=cells_cmp, disagreements=bad)
    if cells_cmp == 0:
        ctx.note("pyte second opinion compared nothing")
    if bad:
        ctx.disagreements.append(("C01/pyte-second-opinion", first_bad, None, "%d cells differ between pyte and the SGR spec" % bad))


def search(ctx):
    ctx.thorough = True
    for c in mk_cases(ctx):
        o = impl(c)
        ctx.count(c, tag="search")
        w = oracle_on(wire.dec_text(o[3:]), c) if o.startswith("ok ") else "str(f) raised " + o
        if w:
            ctx.violation(w, c)
            if len(ctx.violations) > 20:
                return


def replay(payload):
    c = payload["case"]
    o = impl(c)
    return dict(case=c, implementation=o, oracle=oracle_on(wire.dec_text(o[3:]), c) if o.startswith("ok ") else o)
