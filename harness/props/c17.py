"""C17 - fmtstr accepts any string: never raises, never loses ordinary text."""
import itertools
import multiprocessing
import re
import wire
from curtsies.formatstring import FmtStr, fmtstr
from curtsies import escseqparse
from props.common import reply_fmt

PROP = "C17"
MODULES = ["Curtsies.Properties.C17"]
LEVEL_NOTE = ("trusted: Lean kernel + propext/Classical.choice/Quot.sound, the hand-written model and specs, extract.py, the wire "
              "codec; CPython (re, int, str) is modelled not verified. Clause 4 (numeric CSI) is proved for non-empty parameters and "
              "strings that either have no 8-bit sequence or contain ESC[ ; the rest is open finding D28 (witness theorems)")
RULE = ("exhaustive: every string of length <=5 (quick) / <=6 (thorough) over the 13 symbols "
        "{a \\n ESC 0x9b [ 3 1 ; space m A ? ~} through from_str (model tie + oracle), every string of length <=4 also through "
        "peel_off_esc_code, parse, remove_ansi and the scanner tie; every string <=5 over {a ESC 0x9b [ U+0663 1 ; m} (a non-ASCII "
        "decimal digit: regression guard for the \\d fix); grammar-generated numeric-CSI strings; real-world samples; seeded random "
        "strings over a wider alphabet; ESC[<n>m for n = 0..110 alone and after an active format; parameters of 4300/4301 digits "
        "(CPython int() limit); long strings with 17..1000 (thorough ..2000) CSI sequences and an unsupported SGR at the start/"
        "middle/end/nowhere; lone-surrogate strings (oracle only: not representable in the model). "
        "non-trivial = the string contains ESC or 0x9b")
ASSUMPTIONS = ["str is a sequence of code points (lone surrogates excluded from generators)",
               "CPython `re` semantics for the three regexes (lazy front = earliest match, greedy classes; DOTALL) are modelled by hand; "
               "the tie validates the hand model on every run",
               "'part of an escape sequence' is decided by an ECMA-48/ECMA-35 scanner (harness: esc_marks; Lean: Spec/EscScan.lean), "
               "written independently of the library's regexes",
               "fmtstr(s, **atts) is modelled for attribute dicts parse_args accepts",
               "CPython's int(str) digit limit (sys.get_int_max_str_digits(), dumped into Generated/EscParse.lean every run) is the "
               "model parameter md; the theorems hold for every md",
               "lone surrogates are exercised by the oracle only (the model's Text cannot hold them)"]

ALPHA = ["a", "\n", "\x1b", "\x9b", "[", "3", "1", ";", " ", "m", "A", "?", "~"]
ALPHA_U = ["a", "\x1b", "\x9b", "[", "٣", "1", ";", "m"]

SAMPLES = [
    "", "plain text", "line1\nline2\r\n\ttabbed", "\x1b[m", "\x1b[0m", "\x1b[38;5;196mred256\x1b[0m", "\x1b[48;2;1;2;3mtruecolor\x1b[m",
    "\x1b[2Aup", "\x1b[H", "\x1b[Hhome", "\x1b[2J", "\x1b[K", "\x1b[1;1Hx", "\x1b[?25l", "\x1b[?25lhidden\x1b[?25h", "\x1b[?1049h",
    "\x1b[34mdef\x1b[39;49;00m \x1b[32mfoo\x1b[39;49;00m():\n    \x1b[34mreturn\x1b[39;49;00m \x1b[34m1\x1b[39;49;00m\n",
    "\x1b[38;5;28;01mdef\x1b[39;00m \x1b[38;5;21mfoo\x1b[39m():\n    \x1b[38;5;28;01mpass\x1b[39;00m\n",
    "\x1b[01;31mERROR\x1b[00m: something\n", "\x1b[1;31;44mx\x1b[22;39;49m", "\x1b[31mred\x1b[39m\x1b[44mblue\x1b[49m",
    "\x1b]0;title\x07prompt$ ", "\x1b(B\x1b[mtext", "\x1b7saved\x1b8", "\x1bMreverse index", "\x1bcreset", "\x1b", "\x1b[", "\x1b[3", "\x1b[3;",
    "\x9b31mx\x9bm", "\x9b31mx\x1b[0m", "a\x1b[31", "\x1b[31;mtrailing", "\x1b[;31mleading", "\x1b[;m", "\x1b[ q", "\x1b[1 qbar",
    "\x1b[31m\x1b[1m\x1b[4mnested\x1b[0m", "\x1b\x1b[31mdouble", "\x1b[\x1b[31mx", "\x1b[31\x1b[32mx", "tab\there\x1b[5Cright", "\x1b[10;20r",
    "\x1b[38mx", "\x1b[99mx", "\x1b[1mbold\x1b[99munsupported\x1b[0m", "\x1b[٣mx", "\x1b[1٣mx", "٣\x1b[3m٣",
    "\x1b[31mX\x1b[" + "1" * 4301 + "AY", "\x1b[31mX\x1b[" + "1" * 4300 + "AY", "\x1b[" + "0" * 4301 + "mZ", "\x1b[1;" + "0" * 4299 + "4mZ",
    "\x9b31mx", "\x9b2Ax\x9bK", "\x1b[;5Hx", "\x1b[1;;3Ax", "\x9b;5Hx\x1b[1m", "\x9b31mx\x1b[1my", "\x1b[1;mx\x1b[;5Hy", "\x1b[38m\x1b[;5Hy",
    "\x1b[01;31mzero\x1b[39;49;00m", "\x1b[000m",
    "snow☃man \x1b[32m\U0001F600\x1b[m wideＡ", "é\x1b[4mcombining\x1b[24m", "\x7f\x00\x1b[31m\x00\x1b[0m", "\x1b[31m\n\x1b[0m\n",
] + ["\x1b[%dmx" % n for n in range(0, 111)] + ["\x1b[1;31;44ma\x1b[%dmb" % n for n in range(0, 111)]

# "every str" includes strings with lone surrogates; the model's Text cannot hold them: oracle only
SURROGATES = ["\ud800", "a\udc00b", "\x1b[31m\ud83d\x1b[m", "\ud800\x1b[1mq\x1b[0m\udfff", "\x1b[\ud800m", "\x1b[3\udc00mx", "\x9b\ud800m",
              "\x1b\ud800", "\x1b[38;5;1m\ud800x"]


# ------------------------------------------------------------------------------------------------
# independent scanner (ECMA-48 / ECMA-35): which characters are part of an escape sequence
# ------------------------------------------------------------------------------------------------

def esc_marks(s):
    """ESC I* F (I 0x20-0x2f, F 0x30-0x7e), ESC [ = CSI, 0x9b = CSI; CSI P* I* F (P 0x30-0x3f, I 0x20-0x2f, F 0x40-0x7e).
    A character that cannot continue the sequence breaks it off, is not part of it and is read afresh."""
    marks = []
    st = "ground"
    for ch in s:
        c = ord(ch)
        while True:
            if st == "ground":
                if c == 0x1b:
                    marks.append(True); st = "esc"
                elif c == 0x9b:
                    marks.append(True); st = "csiP"
                else:
                    marks.append(False)
                break
            if st == "esc":
                if ch == "[":
                    marks.append(True); st = "csiP"; break
                if 0x20 <= c <= 0x2f:
                    marks.append(True); st = "escI"; break
                if 0x30 <= c <= 0x7e:
                    marks.append(True); st = "ground"; break
            elif st == "escI":
                if 0x20 <= c <= 0x2f:
                    marks.append(True); break
                if 0x30 <= c <= 0x7e:
                    marks.append(True); st = "ground"; break
            elif st == "csiP":
                if 0x30 <= c <= 0x3f:
                    marks.append(True); break
                if 0x20 <= c <= 0x2f:
                    marks.append(True); st = "csiI"; break
                if 0x40 <= c <= 0x7e:
                    marks.append(True); st = "ground"; break
            elif st == "csiI":
                if 0x20 <= c <= 0x2f:
                    marks.append(True); break
                if 0x40 <= c <= 0x7e:
                    marks.append(True); st = "ground"; break
            st = "ground"       # broken off: read the same character again in the ground state
    return marks


def is_subseq(a, b):
    it = iter(b)
    return all(ch in it for ch in a)


def numeric_scan(s):
    """Wide numeric-CSI grammar of the statement: (text free of ESC/0x9b | (ESC [ | 0x9b) d*(;d*)* I* F)*.
    -> None if s is not in the grammar, else (s without the sequences, has_8bit_sequence, has_empty_parameter)."""
    out, i, n = [], 0, len(s)
    has8 = empty = False
    while i < n:
        ch = s[i]
        if ch == "\x9b":
            i += 1
            has8 = True
        elif ch == "\x1b":
            if i + 1 >= n or s[i + 1] != "[":
                return None
            i += 2
        else:
            out.append(ch); i += 1
            continue
        j = i
        while j < n and ("0" <= s[j] <= "9" or s[j] == ";"):
            j += 1
        params = s[i:j]
        if params and "" in params.split(";"):
            empty = True
        i = j
        while i < n and 0x20 <= ord(s[i]) <= 0x2f:
            i += 1
        if i < n and 0x40 <= ord(s[i]) <= 0x7e:
            i += 1
        else:
            return None
    return "".join(out), has8, empty


def numeric_strip(s):
    r = numeric_scan(s)
    return None if r is None else r[0]


def aligned(s, marks, text):
    """positional form of sub+keeps: text is s with some characters deleted, every deleted position being one the
    scanner claims for an escape sequence (NFA over the positions of text reachable after each character of s)"""
    states = {0}
    for ch, m in zip(s, marks):
        new = set()
        for j in states:
            if m:
                new.add(j)                      # a claimed character may be deleted
            if j < len(text) and text[j] == ch:
                new.add(j + 1)                  # any character may be kept
        if not new:
            return False
        states = new
    return len(text) in states


def oracle(s):
    """The property on the real code for one string; None = satisfied."""
    try:
        f = FmtStr.from_str(s)
    except Exception as e:  # noqa: BLE001
        return "raises: FmtStr.from_str raised %s" % type(e).__name__
    try:
        g = fmtstr(s)
    except Exception as e:  # noqa: BLE001
        return "raises: fmtstr raised %s" % type(e).__name__
    try:
        chunks = [(c.s, dict(c.atts)) for c in f.chunks]
        gchunks = [(c.s, dict(c.atts)) for c in g.chunks]
        text = f.s
    except Exception as e:  # noqa: BLE001
        return "raises: reading the result raised %s" % type(e).__name__
    # characters and effective formatting per character; how the result is cut into runs is not part of the statement
    if wire.eff_cells_of_chunks(gchunks) != wire.eff_cells_of_chunks(chunks) or g.s != text:
        return "fmtstr(s) differs from FmtStr.from_str(s)"
    if text != "".join(t for t, _ in chunks):
        return ".s is not the concatenation of the runs"
    marks = esc_marks(s)
    if not any(marks):
        if text != s or any(a for _, a in wire.eff_cells_of_chunks(chunks)):
            return "plain: text without escape sequences did not come back verbatim and unformatted: %r" % (chunks,)
    if not is_subseq(text, s):
        return "subsequence: result text %r is not s with characters removed" % text
    ordinary = [ch for ch, m in zip(s, marks) if not m]
    if not is_subseq(ordinary, text):
        return "keeps: a character that is not part of an escape sequence was lost: ordinary=%r text=%r" % ("".join(ordinary), text)
    if not aligned(s, marks, text):
        return "positional: the text is not s with only escape-sequence characters deleted: text=%r" % text
    want = numeric_strip(s)
    if want is not None and text != want:
        return "numeric: numeric CSI sequences only, but text is %r, expected %r" % (text, want)
    return None


def guarded(fn):
    """run the real code; result/exception in the driver's reply syntax. A result the wire cannot express (an
    unexpected token/dict shape) becomes a reply no driver line can equal: a disagreement, never a crash."""
    try:
        return fn()
    except wire.Unencodable as e:
        return "UNENCODABLE %r" % (e.args,)
    except Exception as e:  # noqa: BLE001 - exception kinds are part of the compared behaviour
        return wire.exc_kind(e)


# ------------------------------------------------------------------------------------------------
# implementation side of the ties
# ------------------------------------------------------------------------------------------------

def impl_fromstr(s):
    return guarded(lambda: reply_fmt(FmtStr.from_str(s)))


def impl_fmtstr(c):
    s, atts = c
    return guarded(lambda: reply_fmt(fmtstr(s, **atts)))


def enc_token(d):
    if d is None:
        return "N"
    if "numbers" not in d:
        nums = "-"
    elif isinstance(d["numbers"], str):
        nums = "r" + wire.enc_text(d["numbers"])
    else:
        nums = "i" + ",".join(str(n) for n in d["numbers"])
    extra = set(d) - {"csi", "numbers", "intermed", "command", "seq", "private"}
    if extra or d.get("private", "") != "":
        raise wire.Unencodable(d)
    return "|".join([wire.enc_text(d["csi"]), nums, wire.enc_text(d.get("intermed", "")), str(ord(d["command"])),
                     wire.enc_text(d["seq"])])


def impl_peel(s):
    def go():
        front, tok, rest = escseqparse.peel_off_esc_code(s)
        return "ok %s %s %s" % (wire.enc_tf(front), enc_token(tok), wire.enc_tf(rest))
    return guarded(go)


STYLE_LETTER = wire.STYLE_LETTER
ALL_NONE = dict({k: None for k in STYLE_LETTER}, fg=None, bg=None)


def enc_item(x):
    if isinstance(x, str):
        return "s" + wire.enc_text(x)
    if x == {}:
        return "NO"
    if x == ALL_NONE:
        return "RA"
    if len(x) == 1:
        (k, v), = x.items()
        if k == "fg":
            return "RF" if v is None else "F%d" % wire.COLORS.index(v)
        if k == "bg":
            return "RB" if v is None else "B%d" % wire.COLORS.index(v)
        if k in STYLE_LETTER and v is True:
            return "S" + STYLE_LETTER[k]
    raise wire.Unencodable(x)


def impl_parse(s):
    def go():
        items = escseqparse.parse(s)
        return "ok " + (";".join(enc_item(x) for x in items) if items else "-")
    return guarded(go)


def impl_removeansi(s):
    return "ok " + wire.enc_tf(escseqparse.remove_ansi(s))


def impl_escscan(s):
    return "ok m" + "".join("1" if m else "0" for m in esc_marks(s))


# ------------------------------------------------------------------------------------------------
# sharded exhaustive enumeration
# ------------------------------------------------------------------------------------------------

# ------------------------------------------------------------------------------------------------
# what the ties compare.  C17 speaks about: raising or not, the TEXT of the result, and - through "unformatted" and C05 -
# the formatting of strings whose SGR sequences are all supported.  Which formatting a hitherto unsupported SGR code
# produces, whether parse() raises on it, and the token/run structure are representation (a maintainer may change them
# with the property intact): compared too, but at level="representation".
# ------------------------------------------------------------------------------------------------

SUPPORTED = frozenset([0, 1, 2, 3, 4, 5, 7] + list(range(30, 38)) + [39] + list(range(40, 48)) + [49])
_SGR = re.compile("(?:\x1b\\[|\x9b)([0-?]*)([ -/]*)m")
_PARAMS = re.compile("(?:[0-9]{1,9}(?:;[0-9]{1,9})*)?\\Z")


def sgr_supported_only(s):
    """every complete SGR control sequence occurring in s (7- or 8-bit CSI ... m) has plain decimal parameters that are all
    supported codes (or no parameter) and no intermediates - the strings on which formatting is inside the properties"""
    for m in _SGR.finditer(s):
        if m.group(2) or not _PARAMS.match(m.group(1)):
            return False
        if m.group(1) and any(int(x) not in SUPPORTED for x in m.group(1).split(";")):
            return False
    return True


def canon_eff_cells(reply):
    """'ok <fmt>' -> per-character (character, EFFECTIVE formatting): an explicit False and an absent key display the
    same and the properties speak about what is displayed; errors and other replies unchanged"""
    if reply.startswith("ok "):
        return ("effcells", tuple(wire.eff_cells_of_chunks(wire.dec_fmt(reply[3:]))))
    return reply


class Lazy:
    """a canonical form computed only when the raw replies differ (equal raw replies have equal canonical forms)"""
    __slots__ = ("reply", "fn")

    def __init__(self, reply, fn):
        self.reply, self.fn = reply, fn

    def __eq__(self, other):
        return isinstance(other, Lazy) and (self.reply == other.reply or self.fn(self.reply) == other.fn(other.reply))

    def __ne__(self, other):
        return not self.__eq__(other)

    __hash__ = None

    def __repr__(self):
        return repr(self.fn(self.reply))


def lazy(fn):
    return lambda reply: Lazy(reply, fn)


def canon_text(reply):
    """'ok <fmt>' -> ('ok', text); a raised exception stays (the kind is irrelevant: the property says 'never')"""
    if reply.startswith("ok "):
        return ("ok", "".join(t for t, _ in wire.dec_fmt(reply[3:])))
    return "raises" if reply.startswith("E:") else reply


def tie_fromstr(ctx, name, cases, line_fn, impl_fn):
    """property level: per-character cells where every SGR sequence is supported, (returns?, text) elsewhere;
    representation level: the exact run list everywhere"""
    cases = list(cases)
    sup = [c for c in cases if sgr_supported_only(c if isinstance(c, str) else c[0])]
    rest = [c for c in cases if not sgr_supported_only(c if isinstance(c, str) else c[0])]
    memo = {}

    def impl(c):
        k = c if isinstance(c, str) else (c[0], tuple(sorted(c[1].items())))
        if k not in memo:
            memo[k] = impl_fn(c)
        return memo[k]
    if sup:
        ctx.tie(name, sup, line_fn, impl, lazy(canon_eff_cells), lazy(canon_eff_cells))
    if rest:
        ctx.tie(name + "-text(unsupported-sgr)", rest, line_fn, impl, lazy(canon_text), lazy(canon_text))
    ctx.tie(name + "-runs", cases, line_fn, impl, level="representation")


def strings_of(alpha, prefix, length):
    for tail in itertools.product(alpha, repeat=length - len(prefix)):
        yield prefix + "".join(tail)


def _work(job):
    alpha, prefix, length = job
    replies, whats = [], []
    for s in strings_of(alpha, prefix, length):
        replies.append(impl_fromstr(s))
        whats.append(oracle(s))
    return replies, whats


def jobs_for(alpha, maxlen):
    jobs = []
    for length in range(0, maxlen + 1):
        if length <= 3:
            jobs.append((alpha, "", length))
        else:
            for p in itertools.product(alpha, repeat=2):
                jobs.append((alpha, "".join(p), length))
    return jobs


def nontrivial(s):
    return "\x1b" in s or "\x9b" in s


def run_enumeration(ctx, name, alpha, maxlen, tag):
    jobs = jobs_for(alpha, maxlen)
    total = 0
    batch, look, viols = [], {}, []

    def flush():
        if batch:
            tie_fromstr(ctx, name, batch, lambda s: "fromstr " + wire.enc_tf(s), look.__getitem__)
            judge(ctx, viols)
            batch.clear(); look.clear(); viols.clear()
    with multiprocessing.get_context("fork").Pool(16) as pool:
        for job, (replies, whats) in zip(jobs, pool.imap(_work, jobs, chunksize=4)):
            cases = list(strings_of(*job))
            look.update(zip(cases, replies))
            batch.extend(cases)
            for s in cases:
                ctx.count(s, nontrivial=nontrivial(s), tag=tag)
            viols.extend((s, w, r) for s, w, r in zip(cases, whats, replies) if w)
            total += len(cases)
            if len(batch) >= 100000:                     # few, large driver runs
                flush()
        flush()
    ctx.exhaustive.append("%s: all strings of length <=%d over %d symbols: %d" % (tag, maxlen, len(alpha), total))


def numeric_cases(rng, n):
    texts = ["", "a", "x\ny", "\t", "0", "m", "[", ";1", "end"]
    finals = "mABCDHJKfhlnsu@~`"
    out = []
    for _ in range(n):
        parts = []
        for _ in range(rng.randint(1, 5)):
            if rng.random() < 0.4:
                parts.append(rng.choice(texts))
            else:
                ps = [str(rng.choice([0, 1, 2, 4, 7, 22, 30, 31, 38, 39, 44, 49, 5, 196, 99, 100, 1000, 7, 0o7]))
                      if rng.random() < 0.8 else rng.choice(["00", "01", "007"]) for _ in range(rng.randint(0, 3))]
                inter = rng.choice(["", "", "", " ", "!", " /"])
                parts.append("\x1b[" + ";".join(ps) + inter + rng.choice(finals))
        out.append("".join(parts))
    return out


def wide_numeric_cases(rng, n):
    """the wide grammar: 7-/8-bit introducers, empty parameters (D28 shapes and their neighbours)"""
    out = []
    for _ in range(n):
        parts = []
        for _ in range(rng.randint(1, 4)):
            if rng.random() < 0.35:
                parts.append(rng.choice(["", "a", "x\ny", "0", ";", "m"]))
            else:
                ps = [rng.choice(["", "", "1", "5", "31", "38", "007"]) for _ in range(rng.randint(0, 3))]
                parts.append(rng.choice(["\x1b[", "\x1b[", "\x9b"]) + ";".join(ps) + rng.choice(["", "", " "]) + rng.choice("mAHJK"))
        out.append("".join(parts))
    return out


def random_cases(rng, n):
    alpha = ALPHA + ["0", "9", "4", "H", "J", "K", "@", "_", "`", "/", "!", "\r", "\t", "٣", "１", "☃", "\x7f", "\x00", "]", "\\", "<", ":", "\x9c"]
    return ["".join(rng.choice(alpha) for _ in range(rng.randint(0, 24))) for _ in range(n)]


def token_cases(rng, n):
    """token-directed strings: text pieces (with controls / non-ASCII), supported and UNSUPPORTED SGR (the latter sends
    from_str down its ValueError -> remove_ansi fallback), truncated CSI introducers/parameter runs cut off by ordinary
    characters, 8-bit CSI, two-byte escapes, cursor moves"""
    texts = ["a", "next line", " done", "12:01", "caf", "é ok", "\n", "\t", "x\ny", "☃", "~", "m", "]", "é"]
    sup = ["\x1b[31m", "\x1b[0m", "\x1b[1;44m", "\x1b[m", "\x1b[39m", "\x1b[7m"]
    unsup = ["\x1b[90m", "\x1b[38m", "\x1b[38;5;196m", "\x1b[11m", "\x1b[1;m", "\x1b[99;1m"]
    trunc = ["\x1b[", "\x1b[2", "\x1b[2;", "\x1b[2;3", "\x9b", "\x9b3", "\x9b3;", "\x1b[ ", "\x1b"]
    other = ["\x1b[2A", "\x1b[H", "\x1b[2J", "\x1b[K", "\x1bM", "\x1bE", "\x9b31m", "\x1b[?25l", "\x1b[;m"]
    out = []
    for _ in range(n):
        parts = []
        for _ in range(rng.randint(1, 8)):
            r = rng.random()
            pool = texts if r < 0.4 else sup if r < 0.55 else unsup if r < 0.7 else trunc if r < 0.88 else other
            parts.append(rng.choice(pool))
        out.append("".join(parts))
    return out


def long_cases(rng, thorough):
    """long strings: 17 .. 1000 numeric CSI sequences of several kinds with text (some long plain stretches) in between, and
    a wholly unsupported SGR sequence (-> ValueError -> remove_ansi fallback) at the start / in the middle / at the end / not
    at all.  (Anything that handles only the first k sequences of a string shows up here.)"""
    seqs = ["\x1b[31m", "\x1b[0m", "\x1b[1;44m", "\x1b[2A", "\x1b[K", "\x1b[10;20H", "\x1b[m", "\x1b[39;49m", "\x1b[4m", "\x1b[2J", "\x1b[1 q"]
    unsup = ["\x1b[90m", "\x1b[22m", "\x1b[38m"]
    texts = ["a", "def ", "x\ny", " ", "return 1\n", "", "m", "12"]
    out = []
    sizes = [17, 18, 33, 100, 1000] + ([16, 19, 32, 34, 64, 65, 257, 500, 2000] if thorough else [])
    for n in sizes:
        reps = (3 if n <= 100 else 1) if thorough else 1
        for _ in range(reps):
            for where in ("start", "middle", "end", "none"):
                if n >= 1000 and where in ("middle",) and not thorough:
                    continue
                parts = []
                bad = {"start": 0, "middle": n // 2, "end": n - 1, "none": -1}[where]
                for i in range(n):
                    parts.append(rng.choice(unsup) if i == bad else rng.choice(seqs))
                    parts.append("plain " * 40 if rng.random() < 0.03 else rng.choice(texts))
                out.append("".join(parts))
    # single sequences with many parameters (supported or not, some with empty parameters = D28 shape)
    for n in (15, 16, 17, 18, 40, 300):
        for final in "mH":
            ps = [str(rng.choice([0, 1, 4, 31, 44, 7, 39, 5, 2])) for _ in range(n)]
            out.append("a\x1b[" + ";".join(ps) + final + "b")
            out.append("\x1b[1mx\x1b[" + ";".join(ps + ["38"]) + final + "y\x1b[0m")
            qs = list(ps)
            qs[n // 2] = ""
            out.append("a\x1b[" + ";".join(qs) + final + "b\x1b[31mc")
    # two lines of pygments-style bright-colour output
    out.append("".join("\x1b[9%dm%s\x1b[39m " % (i % 8, w) for i, w in enumerate("def f ( x ) : return x + 1 # twenty tokens of code in bright colours".split())) + "\n")
    return out


def d28_shaped(case, what):
    """the numeric clause fails, and the string is in the wide numeric grammar with (a) an 8-bit sequence and no "ESC[" at
    all (fast path returns it verbatim) or (b) a sequence with an empty parameter"""
    if not what.startswith("numeric:"):
        return False
    r = numeric_scan(case)
    if r is None:
        return False
    _, has8, empty = r
    return (has8 and "\x1b[" not in case) or empty


def d28_text(s):
    """Own scanner (no model, no tree under test): the text the recorded defect D28 leaves for a string of the wide numeric
    grammar when it is PARSED - every numeric CSI sequence removed except the D28-shaped ones: without any "ESC[" the string
    stays verbatim; of a 7-bit sequence with an empty parameter only the introducer is peeled; an 8-bit one with an empty
    parameter stays whole.  None if s is not in the grammar."""
    if numeric_scan(s) is None:
        return None
    if "\x1b[" not in s:
        return s
    out, i, n = [], 0, len(s)
    while i < n:
        if s[i] not in "\x1b\x9b":
            out.append(s[i]); i += 1
            continue
        start = i
        i += 2 if s[i] == "\x1b" else 1
        body = i
        while i < n and ("0" <= s[i] <= "9" or s[i] == ";"):
            i += 1
        params = s[body:i]
        while i < n and 0x20 <= ord(s[i]) <= 0x2f:
            i += 1
        i += 1                                             # the final byte (numeric_scan accepted s)
        if params and "" in params.split(";") and not re.fullmatch("(?:[0-9]+;)*[0-9]+;", params):
            out.append(s[body:i] if s[start] == "\x1b" else s[start:i])
    return "".join(out)


def judge(ctx, viols):
    """viols: [(string, what, reply of the real code in wire form)].  A failing case is attributed to D28 only if it has the
    D28 shape AND what the real code returned - every character with its effective formatting - EQUALS what the recorded defect does, i.e. the
    reply of the Lean model (an independent parser, not the tree under test) for that string.  Anything else on such an
    input is an unlisted violation.  One allowance: when the string also contains an SGR code outside the supported set,
    whether from_str parses or falls back to remove_ansi (and the formatting) is outside the properties; then the TEXT may
    also be the one D28 leaves on the parse path (`d28_text`, computed by the harness's own scanner) - but only if the
    recorded behaviour itself fails the numeric clause on that string."""
    cand = [v for v in viols if d28_shaped(v[0], v[1])]
    model = {}
    if cand:
        import lib
        # a missing/failed driver is infrastructure trouble (InfraError -> exit 2), never a verdict
        reps = lib.run_driver(["fromstr " + wire.enc_tf(v[0]) for v in cand])
        model = {v[0]: r for v, r in zip(cand, reps)}
    for case, what, reply in viols:
        m = model.get(case)
        if m is not None and m.startswith("ok ") and canon_eff_cells(m) == canon_eff_cells(reply):
            ctx.violation(what, case, "D28")
        elif (m is not None and not sgr_supported_only(case) and canon_text(reply) == ("ok", d28_text(case))
              and canon_text(m) != ("ok", numeric_strip(case))):
            # (never when the recorded behaviour - the model - satisfies the numeric clause on this string and the real
            #  code does not: that is a new failure, whatever its shape)
            ctx.violation(what, case, "D28")
        elif m is not None:
            ctx.violation("not-D28: " + what + " [D28-shaped input, but the result is not what D28 explains: got %s, D28 gives %s]" % (reply, m), case, None)
        else:
            ctx.violation(what, case, None)


def small_cases(ctx):
    cases = list(SAMPLES)
    for length in range(0, 5):
        cases += list(strings_of(ALPHA, "", length))
    for length in range(0, 5):
        cases += list(strings_of(ALPHA_U, "", length))
    cases += numeric_cases(ctx.rng, 4000 if ctx.thorough else 1000)
    cases += wide_numeric_cases(ctx.rng, 2000 if ctx.thorough else 600)
    cases += random_cases(ctx.rng, 20000 if ctx.thorough else 3000)
    cases += long_cases(ctx.rng, ctx.thorough)
    cases += token_cases(ctx.rng, 40000 if ctx.thorough else 6000)
    return cases


def check(ctx):
    # 1. samples, numeric grammar, random, strings <= 4: all operations
    cases = small_cases(ctx)
    tie_fromstr(ctx, "C17/fromstr", cases, lambda s: "fromstr " + wire.enc_tf(s), impl_fromstr)
    # the helpers' exact outputs (token dicts, parse() lists and its raising, remove_ansi) are not what C17 states
    ctx.tie("C17/peel", cases, lambda s: "peel " + wire.enc_tf(s), impl_peel, level="representation")
    ctx.tie("C17/parse", cases, lambda s: "parse " + wire.enc_tf(s), impl_parse, level="representation")
    ctx.tie("C17/removeansi", cases, lambda s: "removeansi " + wire.enc_tf(s), impl_removeansi, level="representation")
    ctx.tie("C17/escscan-spec", cases, lambda s: "escscan " + wire.enc_tf(s), impl_escscan, impl=False)
    fm = [(s, a) for s in SAMPLES for a in ({}, {"bold": True}, {"fg": 31, "underline": False}, {"bg": 44, "fg": 37, "blink": True})]
    tie_fromstr(ctx, "C17/fmtstr", fm, lambda c: ("fmtstr %s %s" % (wire.enc_tf(c[0]), wire.enc_atts(c[1]))).rstrip(), impl_fmtstr)
    n_numeric = 0
    viols = []
    for s in cases:
        w = oracle(s)
        num = numeric_strip(s) is not None
        n_numeric += num and nontrivial(s)
        ctx.count(s, nontrivial=nontrivial(s), tag="small/numeric" if num and nontrivial(s) else "small")
        if w:
            viols.append((s, w, impl_fromstr(s)))
    judge(ctx, viols)
    ctx.note("strings in the numeric-CSI grammar with at least one sequence among the small cases: %d" % n_numeric)
    for s in SURROGATES:
        w = oracle(s)
        ctx.count(s, nontrivial=True, tag="surrogate(oracle only)")
        if w:
            ctx.violation(w, s, None)      # not representable in the model: never attributed to a known finding
    # 2. exhaustive enumerations through from_str (sharded over 16 processes)
    run_enumeration(ctx, "C17/fromstr", ALPHA, 6 if ctx.thorough else 5, "exh13")
    run_enumeration(ctx, "C17/fromstr", ALPHA_U, 6 if ctx.thorough else 5, "exh-nonascii-digit")


def search(ctx):
    """tie or proof broke: oracle at thorough bounds"""
    viols = []
    for s in token_cases(ctx.rng, 200000):
        w = oracle(s)
        ctx.evaluations += 1
        if w:
            viols.append((s, w, impl_fromstr(s)))
    judge(ctx, viols)
    if any(v["footprint"] is None for v in ctx.violations):
        return
    if ctx.thorough:
        return
    ctx.thorough = True
    jobs = jobs_for(ALPHA, 6)
    with multiprocessing.get_context("fork").Pool(16) as pool:
        for job, (replies, whats) in zip(jobs, pool.imap(_work, jobs, chunksize=4)):
            judge(ctx, [(s, w, r) for s, w, r in zip(strings_of(*job), whats, replies) if w])
            ctx.evaluations += len(whats)
            if len(ctx.violations) > 50:
                return


def replay(payload):
    s = payload["case"]
    return dict(case=s, implementation=impl_fromstr(s), peel=impl_peel(s), oracle=oracle(s),
                marks=impl_escscan(s), numeric_strip=numeric_strip(s))
