"""C11 - width_aware_splitlines wraps to the column limit without losing anything."""
import functools
import itertools
import wire
from wire import mk_fmt, cells
from props.common import guarded, canon_cells_list, reply_fmt_list, PALETTE
from props.widthenv import (ALPHA3, wc, env_fields, text_of, cut_layouts, self_check, realize, shared_variants,
                            shared_case_fields, pool_size, pool_object, safe_oracle, safe_impl, limit_memory, BIG, HUGE, long_text, budgeted, DidNotReturn,
                            over_budget)
from curtsies.formatstring import Chunk, fmtstr

PROP = "C11"
MODULES = ["Curtsies.Properties.C11"]
RULE = ("exhaustive: every string of length <=6 (thorough: <=7) over {narrow 'a', wide U+FF25, combining U+0301} x run layouts (no runs, "
        "1 run, every placement of cuts incl. empty runs and runs ending exactly at a line boundary) x columns 2..4; "
        "SHARED-IDENTITY cases: FmtStr values built through the real operations so that one Chunk object occurs at several "
        "positions of .chunks (f*2, f*3, f+f, f+f+f, join with repeated item / repeated separator, whole-run slices "
        "concatenated) for every string <=3 x <=1-cut layouts x columns 2..4, plus objects from random public-API programs "
        "with interleaved observations (common.api_pool); "
        "PRE-OBSERVED sources: every string <=4 x 2-cut layouts x columns 2..4 (and shared-identity values) with the source "
        "rendered / hashed / compared BEFORE wrapping; on these, on the shared-identity/API-built/interleaved cases and on every string <=4 each returned line is observed through str(), == and "
        "hash() against an equal freshly built value (pre-observed cases also parse str(line) back); "
        "LARGE column counts 255, 256, 257, 258, 300, 1000 and 65537 on long narrow/wide/combining/mixed texts a little "
        "narrower than, exactly as wide as and 1-3 lines wider than the limit; "
        "INTERLEAVED consumption of the lazy generator: the same FmtStr at two column widths consumed in lock-step, and a "
        "generator suspended after 1..2 next() calls while another over the same f / f+tail / f*2 (sharing its first Chunk "
        "object) is fully consumed, then resumed - every produced line list judged and tied; "
        "tie-only extras: columns in {-1,0,1}, control characters, random longer strings with columns up to 7, and "
        "sequences of ChunkSplitter.request(max_width) calls incl. max_width<1. non-trivial = distinct case whose string "
        "contains a wide or combining character, or that raises")
LEVEL_NOTE = ("theorems are for EVERY wcwidth function with values 0/1/2 on the string and columns >= 2: termination, no "
              "exception, and the relation Lines (consecutive non-empty segments, every line but the last exactly `columns` wide, "
              "one padding space formatted like the double-width character that would straddle the boundary). Latitude left by "
              "the statement (the property's own observation is 'up to placement of zero-width characters'): a zero-width "
              "character following a full line may stay on it or open the next line - the code keeps it only when it is in the "
              "same run; Lines allows both - in particular Lines accepts a LAST line made only of zero-width characters "
              "(red('ab')+blue(U+0301) at columns 2 gives ['ab', U+0301], one run gives one line): this is inside that latitude; "
              "the oracle accepts such a line only as the last one after a full line (or as the only line), counts these cases "
              "(distribution key last-line-zero-width-only), and otherwise compares lines per column-occupying character and "
              "the full sequence after removing the padding. Trusted: Lean kernel + propext/Classical.choice/Quot.sound, the hand-written model, "
              "the wire codec; cwcwidth is a parameter whose values are read live per run")
ASSUMPTIONS = ["columns >= 2 and characters of width 0, 1 or 2 (the library raises ValueError otherwise; tie-checked only)",
               "lines are compared with the reference wrap per character up to the placement of zero-width characters "
               "(a combining character after a full line may stay on it or open the next line)",
               "the model is the fully iterated list of lines; the laziness of the generator (state kept between next() calls, "
               "several generators alive at once over FmtStr values sharing Chunk objects) is covered by the interleaved-"
               "consumption correspondence/oracle cases only, not by a theorem"]


def mk_cases(ctx):
    cases, extra = [], []
    nstr = 0
    for n in range(8 if ctx.thorough else 7):
        for tup in itertools.product(ALPHA3, repeat=n):
            s = "".join(tup)
            nstr += 1
            lay = cut_layouts(s, PALETTE, max_cuts=2)
            for ch in lay:
                for columns in (2, 3, 4):
                    cases.append(dict(op="wasplit", f=ch, columns=columns))
    ctx.exhaustive.append("C11: %d strings (len<=6 quick / 7 thorough over narrow/wide/combining) x cut layouts x columns 2..4: %d cases"
                          % (nstr, len(cases)))
    shared = []
    for n in range(5 if ctx.thorough else 4):
        for tup in itertools.product(ALPHA3, repeat=n):
            s = "".join(tup)
            for ch in cut_layouts(s, PALETTE, max_cuts=2 if ctx.thorough else 1):
                for spec in shared_variants(ch, other=[(s[:1], dict(PALETTE[4]))]):
                    fields = shared_case_fields(spec)
                    for columns in (2, 3, 4):
                        shared.append(dict(op="wasplit", columns=columns, **fields))
    r = ctx.rng
    for _ in range(400 if ctx.thorough else 120):
        seed = r.randrange(1 << 30)
        for i in range(pool_size(seed)):
            obj = pool_object(seed, i)
            shared.append(dict(op="wasplit", f=wire.fmt_chunks(obj), pool=[seed, i], columns=r.choice([2, 2, 3, 4, 5])))
    ctx.exhaustive.append("C11: %d cases on FmtStr values sharing Chunk objects by identity / built by API programs" % len(shared))
    cases += shared
    pre = []
    for n in range(6 if ctx.thorough else 5):
        for tup in itertools.product(ALPHA3, repeat=n):
            s = "".join(tup)
            for ch in cut_layouts(s, PALETTE, max_cuts=2 if (ctx.thorough or n <= 3) else 1):
                for columns in (2, 3, 4):
                    pre.append(dict(op="wasplit", f=ch, columns=columns, pre=["str", "hash", "eq"]))
            for kinds in (["str"], ["hash"], ["eq"], ["repr", "str"]):
                pre.append(dict(op="wasplit", f=[(s, dict(PALETTE[2]))], columns=2, pre=kinds))
            for spec in shared_variants([(s, dict(PALETTE[1]))])[:4]:
                pre.append(dict(op="wasplit", columns=3, pre=["str", "eq"], **shared_case_fields(spec)))
    ctx.exhaustive.append("C11: %d cases whose SOURCE was rendered/hashed/compared before wrapping" % len(pre))
    # LARGE column counts (every columns >= 2): texts a little narrower than, exactly as wide as, and 1-3 lines wider than
    # the limit, in long runs of narrow / wide / combining / mixed characters, one run and cut at / next to a line boundary
    big = []
    for columns in BIG:
        for kind in ("narrow", "wide", "comb", "mixed"):
            widths = [columns - 3, columns, columns + 1, 2 * columns + 5] + ([3 * columns + 2] if ctx.thorough or kind == "narrow" else [])
            for w in widths:
                t = long_text(kind, w)
                big.append(dict(op="wasplit", f=[(t, dict(PALETTE[1]))], columns=columns))
                if kind in ("narrow", "mixed") or ctx.thorough:
                    k = min(len(t), columns)
                    big.append(dict(op="wasplit", f=[(t[:k], dict(PALETTE[1])), (t[k:], dict(PALETTE[2]))], columns=columns))
                    big.append(dict(op="wasplit", f=[(t[:k - 1], dict(PALETTE[2])), ("", dict(PALETTE[3])), (t[k - 1:], dict(PALETTE[1]))],
                                    columns=columns))
    for w in ((HUGE - 1, HUGE, HUGE + 1) if not ctx.thorough else (HUGE - 1, HUGE, HUGE + 1, 2 * HUGE + 3)):
        big.append(dict(op="wasplit", f=[(long_text("narrow", w), dict(PALETTE[1]))], columns=HUGE))
    if ctx.thorough:
        big.append(dict(op="wasplit", f=[(long_text("mixed", HUGE + 2), dict(PALETTE[1]))], columns=HUGE))
    ctx.exhaustive.append("C11: %d cases with column counts 255..1000 and 65537 on long texts" % len(big))
    cases += big
    cases += pre
    inter = []
    bases = []
    for n in range(5 if ctx.thorough else 4):
        for tup in itertools.product(ALPHA3, repeat=n):
            s = "".join(tup)
            bases += cut_layouts(s, PALETTE, max_cuts=1)
    for _ in range(600 if ctx.thorough else 150):
        lens = [r.randint(1, 5) for _ in range(r.randint(1, 3))]
        bases.append([("".join(r.choice(ALPHA3 + ("a", "b")) for _ in range(k)), dict(PALETTE[(i + 1) % len(PALETTE)]))
                      for i, k in enumerate(lens)])
    for base in bases:
        for c1, c2 in ((2, 3), (3, 4), (4, 2), (3, 3)):
            for which in (0, 1):
                sc = dict(kind="zip", base=base, cols=[c1, c2], which=which)
                inter.append(dict(op="wasplit", f=judged_chunks(sc), columns=[c1, c2][which], inter=sc))
        for other in ("same", "tail", "mul2"):
            for k in (1, 2):
                for c1, c2 in ((2, 3), (3, 2), (4, 6)):
                    for which in (0, 1):
                        sc = dict(kind="suspend", base=base, other=other, k=k, cols=[c1, c2], which=which)
                        inter.append(dict(op="wasplit", f=judged_chunks(sc), columns=[c1, c2][which], inter=sc))
    ctx.exhaustive.append("C11: %d line lists produced under interleaved consumption of the lazy generators" % len(inter))
    cases += inter
    alpha = list(ALPHA3) + ["b", " ", "\n", "語"]
    for _ in range(6000 if ctx.thorough else 1500):
        lens = [r.randint(0, 5) for _ in range(r.randint(0, 5))]
        al = alpha if r.random() < 0.3 else [c for c in alpha if c != "\n"]
        ch = [("".join(r.choice(al) for _ in range(k)), dict(PALETTE[(i + 1) % len(PALETTE)])) for i, k in enumerate(lens)]
        extra.append(dict(op="wasplit", f=ch, columns=r.choice([-1, 0, 1, 2, 2, 3, 3, 4, 5, 6, 7])))
    for _ in range(3000 if ctx.thorough else 800):
        s = "".join(r.choice(alpha) for _ in range(r.randint(0, 6)))
        ms = [r.choice([0, 1, 1, 2, 2, 3, 4, -1]) for _ in range(r.randint(1, 6))]
        extra.append(dict(op="splitreq", s=s, atts=dict(PALETTE[r.randrange(len(PALETTE))]), ms=ms))
    return cases, extra


def line(c):
    if c["op"] == "splitreq":
        return "splitreq %s %s %s" % (env_fields(c["s"]), wire.enc_chunks([(c["s"], c["atts"])]), ",".join(map(str, c["ms"])))
    return "wasplit %s %s %d" % (env_fields(text_of(c["f"])), wire.enc_chunks(c["f"]), c["columns"])


def _scenario_objects(sc):
    """-> (fs, other): the two real FmtStr values of an interleaving scenario; they share Chunk objects"""
    fs = mk_fmt(sc["base"])
    if sc["kind"] == "zip" or sc["other"] == "same":
        return fs, fs
    if sc["other"] == "tail":
        return fs, fs + "tail"
    return fs, fs * 2


def judged_chunks(sc):
    """wire form of the FmtStr whose lines the case judges"""
    return wire.fmt_chunks(_scenario_objects(sc)[sc["which"]])


def run_scenario(sc):
    """-> (lines of generator 0, lines of generator 1) under the interleaved consumption the scenario describes"""
    fs, other = _scenario_objects(sc)
    c1, c2 = sc["cols"]
    g0, g1 = fs.width_aware_splitlines(c1), other.width_aware_splitlines(c2)
    out0, out1 = [], []
    if sc["kind"] == "zip":                   # lock-step, like zip(), but each generator is drained
        live = [(g0, out0), (g1, out1)]
        while live:
            for g, out in list(live):
                try:
                    out.append(next(g))
                except StopIteration:
                    live.remove((g, out))
    else:                                      # suspend g0 after k lines, drain g1, resume g0
        for _ in range(sc["k"]):
            try:
                out0.append(next(g0))
            except StopIteration:
                break
        out1.extend(g1)
        out0.extend(g0)
    return out0, out1


def pre_observe(obj, kinds, chunks):
    """render / hash / compare the SOURCE before it is wrapped: fills every cached rendering of the source and its runs"""
    for k in kinds:
        if k == "str":
            str(obj)
            for ch in obj.chunks:
                str(ch)
        elif k == "hash":
            hash(obj)
        elif k == "eq":
            obj == mk_fmt(chunks)
        elif k == "repr":
            repr(obj)


def run_impl(c):
    if "pre" in c:
        obj = realize(c)
        pre_observe(obj, c["pre"], c["f"])
        return list(obj.width_aware_splitlines(c["columns"]))
    if "inter" in c:
        return run_scenario(c["inter"])[c["inter"]["which"]]
    return list(realize(c).width_aware_splitlines(c["columns"]))


def _impl(c):
    if c["op"] == "splitreq":
        sp = Chunk(c["s"], dict(c["atts"])).splitter()
        out = []
        for m in c["ms"]:
            try:
                r = sp.request(m)
            except Exception as e:  # noqa: BLE001
                out.append(wire.exc_kind(e))
                break
            if r is None:
                out.append("N")
            else:
                # private bookkeeping: read when present (sharpens the representation-level tie), never required
                out.append("%d~%s~%s~%s" % (r[0], wire.enc_chunk(r[1]), getattr(sp, "internal_offset", "?"),
                                            getattr(sp, "internal_width", "?")))
        return "ok [" + " ".join(out) + "]"
    kind, val = outcome(c)
    if kind == "raised":
        if isinstance(val, wire.Unencodable):
            raise val
        return wire.exc_kind(val)
    return reply_fmt_list(val)


impl = safe_impl(_impl)


@functools.lru_cache(maxsize=400000)
def canon(reply):
    if reply.startswith("ok [") and "~" not in reply and "N" not in reply and "E:" not in reply:
        return canon_cells_list(reply)
    return reply


@functools.lru_cache(maxsize=400000)
def canon_placement(reply):
    r = canon(reply)
    if isinstance(r, tuple) and r and r[0] == "cellslist":
        cols = [tuple(x for x in l if wc(x[0]) != 0) for l in r[1]]
        while cols and not cols[-1]:
            cols.pop()
        return ("lines-up-to-zero-width-placement", tuple(cols), tuple(x for l in r[1] for x in l))
    return r


# ------------------------------------------------------------------------------------------------ oracle
import collections
STATS = collections.Counter()


def reference_wrap(cs, columns):
    """greedy wrap written from the property text, on the characters that occupy columns:
    -> list of (line cells, padded?) where a padded line ends with a space formatted like the double-width character
    that would have straddled the boundary and therefore starts the next line"""
    lines, cur, cur_w = [], [], 0
    for ch, at in cs:
        w = wc(ch)
        if w == 0:
            continue
        if cur_w + w > columns:
            # only a double-width character one column before the limit can fail to fit on an unfinished line
            lines.append((cur + [(" ", at)], True))
            cur, cur_w = [], 0
        cur.append((ch, at))
        cur_w += w
        if cur_w == columns:
            lines.append((cur, False))
            cur, cur_w = [], 0
    if cur:
        lines.append((cur, False))
    return lines


def observe_rendering(lines, deep):
    """every returned line observed through str()/==/hash as well as through its runs: what it renders to must be what
    an equal, freshly built value renders to (and, deep, must parse back to the line's own characters and formatting)"""
    for k, l in enumerate(lines):
        chunks = wire.fmt_chunks(l)
        fresh = mk_fmt(chunks)
        rendered = str(l)
        if rendered != str(fresh):
            return "str(line %d) is %r, its runs %r render to %r" % (k, rendered, chunks, str(fresh))
        if not (l == fresh) or hash(l) != hash(fresh):
            return "line %d is not equal to / hashes differently from an equal freshly built value" % k
        if l.s != "".join(t for t, _ in chunks) or len(l) != sum(len(t) for t, _ in chunks):
            return "line %d: .s / len() disagree with its runs" % k
        if deep:
            back = fmtstr(rendered)
            if wire.eff_cells_of_chunks(wire.fmt_chunks(back)) != wire.eff_cells_of_chunks(chunks):
                return "str(line %d) parses back to %r, the line's runs are %r" % (k, wire.fmt_chunks(back), chunks)
    return None


_LINES = {}     # id(case) -> lines / exception produced by the ONE call of the real code shared by tie and oracle


def outcome(c):
    """run the real code once per case: -> ('lines', [FmtStr]) or ('raised', exception)"""
    k = id(c)
    if k not in _LINES:
        try:
            _LINES[k] = ("lines", budgeted(lambda: run_impl(c), sum(len(t) for t, _ in c["f"]), inside=in_quantifier(c)))
        except Exception as e:  # noqa: BLE001
            _LINES[k] = ("raised", e)
    return _LINES[k]


def _oracle(c):
    if c["op"] != "wasplit" or c["columns"] < 2:
        return None
    cs = wire.cells_of_chunks(c["f"])
    if any(wc(ch) not in (0, 1, 2) for ch, _ in cs):
        return None
    columns = c["columns"]
    kind, lines = outcome(c)
    if kind == "raised":
        if isinstance(lines, DidNotReturn):
            return "width_aware_splitlines did not finish within %s s (the unchanged code needs milliseconds)" % lines.seconds
        return "raised %s" % type(lines).__name__
    if any(k in c for k in ("pre", "build", "pool", "inter")) or len(cs) <= 4:
        w = observe_rendering(lines, deep="pre" in c)
        if w:
            return w
    for k, l in enumerate(lines):
        if len(l) == 0 or not cells(l):
            return "line %d is empty" % k
        if l.width > columns:
            return "line %d is %d columns wide, limit %d" % (k, l.width, columns)
        if k < len(lines) - 1 and l.width != columns:
            return "line %d (not the last) is %d columns wide, not %d" % (k, l.width, columns)
    ref = reference_wrap(cs, columns)
    got = [cells(l) for l in lines]
    got_cols = [[x for x in g if wc(x[0]) != 0] for g in got]
    # Placement of zero-width characters is the latitude the property itself leaves ("compared per character up to
    # placement of zero-width characters"): ONE line without any column-occupying character is accepted, only as the last
    # line and only when it is the only line or follows a line that is exactly `columns` wide (zero-width characters that
    # arrive, in a new run, after a full line open a line of their own; in one run they stay on the full line). Such cases
    # are counted ("last-line-zero-width-only" in the distribution), never dropped silently.
    for k, g in enumerate(got_cols):
        if not g:
            if k != len(got_cols) - 1:
                return "line %d holds only zero-width characters but is not the last line" % k
            if k > 0 and lines[k - 1].width != columns:
                return "last line holds only zero-width characters although line %d is not full" % (k - 1)
            STATS["last-line-zero-width-only"] += 1
            got_cols = got_cols[:-1]
    if got_cols != [r[0] for r in ref]:
        return "lines differ from the greedy wrap: got %r expected %r" % (got_cols, [r[0] for r in ref])
    # nothing lost, reordered or restyled; the only additions are the padding spaces
    flat = []
    for k, g in enumerate(got):
        if k < len(ref) and ref[k][1]:
            if g[-1] != ref[k][0][-1]:
                return "line %d does not end with the padding space %r" % (k, ref[k][0][-1])
            g = g[:-1]
        flat += g
    if flat != cs:
        return "characters lost/reordered/restyled: lines minus padding give %r, the string is %r" % (flat, cs)
    return None


oracle = safe_oracle(_oracle)


def in_quantifier(c):
    if c["op"] != "wasplit" or c["columns"] < 2:
        return False
    return all(wc(ch) in (0, 1, 2) for ch in text_of(c["f"]))


def footprint(c, what):
    return None


def nontrivial(c):
    s = c["s"] if c["op"] == "splitreq" else text_of(c["f"])
    return any(wc(ch) != 1 for ch in s)


def check(ctx):
    limit_memory()
    self_check(ctx)
    cases, extra = mk_cases(ctx)
    tagged = [(c, "columns=%d" % c["columns"]) for c in cases] + [(c, "extra-" + c["op"]) for c in extra]
    BATCH = 40000        # the real code runs ONCE per case (outcome()); batches bound the memory held between tie and oracle
    for i in range(0, len(tagged), BATCH):
        if over_budget(ctx):
            break
        batch = tagged[i:i + BATCH]
        everything = [c for c, _ in batch]
        inside = [c for c in everything if in_quantifier(c)]
        outside = [c for c in everything if not in_quantifier(c)]
        memo = {}

        def impl_once(c, memo=memo):
            if id(c) not in memo:
                memo[id(c)] = impl(c)
            return memo[id(c)]
        # property level: inputs inside the quantifier (columns >= 2, widths 0/1/2), compared as the property observes lines:
        # "per character up to placement of zero-width characters" = the column-occupying cells of every line (padding
        # included) plus the full character sequence of all lines together
        ctx.tie("C11/wasplit", inside, line, impl_once, canon_placement, canon_placement)
        # representation level: on which line exactly each zero-width character sits (the model mirrors the code's choice)
        exact = [c for c in inside if len(text_of(c["f"])) <= (5 if ctx.thorough else 4) or any(k in c for k in ("pre", "build", "pool", "inter"))]
        ctx.tie("C11/wasplit-exact-lines", exact, line, impl_once, canon, canon, level="representation")
        # representation level: columns < 2 and control characters (exception kinds), and the ChunkSplitter protocol itself
        # (request() return values, internal_offset/internal_width): stricter than / outside the property, never a verdict
        ctx.tie("C11/outside-quantifier", outside, line, impl, canon, canon, level="representation")
        for c, tag in batch:
            w = oracle(c)
            ctx.count(c, nontrivial=nontrivial(c), tag=tag)
            if w:
                ctx.violation(w, c, footprint(c, w))
        _LINES.clear()
    flush_stats(ctx)


def flush_stats(ctx):
    for k, v in STATS.items():
        ctx.dist[k] += v
    STATS.clear()


def search(ctx):
    if ctx.thorough:
        return
    ctx.thorough = True
    cases, _ = mk_cases(ctx)
    for c in cases:
        w = oracle(c)
        _LINES.pop(id(c), None)
        ctx.count(c, tag="search")
        if w:
            ctx.violation(w, c, footprint(c, w))
            if len(ctx.violations) > 50:
                return


def replay(payload):
    c = payload["case"]
    return dict(case=c, implementation=impl(c), oracle=oracle(c))
