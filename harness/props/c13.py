"""C13 - FmtStr values are immutable and their memoised views never go stale.

A case is a straight-line PROGRAM over a pool of FmtStr values (every FmtStr a step returns is appended to the
pool; operands are pool indices).  The real code runs the program once; after every step every pool value is
snapshotted WITHOUT touching its memo fields (the views are recomputed on brand-new Chunk/FmtStr objects built
from the runs' current (text, attributes)), the memo fields are read directly and compared with the fresh
views, and at the end every value is observed through the public API (`str`, `len`, `.s`, `.width`, `repr`)
and compared with its first snapshot and with `FmtStr(*f.chunks)`.  Observation steps (`str(f)`, `len(f)`,
`f.s`, `f.width`, `chunk.color_str`) are ordinary steps placed at random positions, so caches are filled
before and after aliasing happens.

Tie: the same program goes to the Lean heap model.  Two levels (notes/AGENT_GUIDE.md):
  C13/steps (property level; every step inside the quantifier, the model starting from literal copies of the real pool
    before the step): the result (a terminal string by what it DISPLAYS, a guard by the fact that it raised, a raising
    operation as "raised") and for every pool value after the step its per-character formatting (hence text), length,
    width, and the display of its terminal string - what the frame/cache theorems speak about;
  C13/programs-representation (representation level, all programs incl. slice steps): additionally object identity of
    FmtStr / run list / run / attribute-dict objects (renumbered by first appearance), run layout, which memo slots are
    filled, exact bytes of str(), guard exception kinds, the truth value of ==.
Private attributes of the implementation (`_unicode/_len/_s/_width`, `color_str` in a run's __dict__) are read only when
they exist; the verdict rests on the public accessors (observation steps compared with a fresh rebuild, final sweep).
"""
import itertools
import operator
import re
from itertools import chain

from cwcwidth import wcswidth
from curtsies.formatstring import FmtStr, Chunk, fmtstr

import lib
import wire
from props.common import PALETTE
from props import widthenv
import sgrterm
from extract_more_heap import dict_mutators

PROP = "C13"
MODULES = ["Curtsies.Properties.C13", "Curtsies.Properties.C13Table"]
EXTRA_MODULES = []
RULE = ("programs: (a) scenario enumeration: every (aliasing operation A, observation set filled before A, follow-up "
        "operation B) over fixed operands, with all four observations on every value afterwards; (b) seeded random "
        "straight-line programs (<=15 steps quick, <=40 thorough) over the whole public operation set with observation "
        "steps at random positions; (c) guard enumeration: f[i]=x and every (method, arguments) of dir(dict) that changes "
        "a plain dict, on runs with empty and non-empty attributes. one case = one program; non-trivial = a program in "
        "which some result shares a run object or is identical to an operand AND some memo field was filled before that step")
ASSUMPTIONS = ["texts contain no ESC (fmtstr(str) would parse them; C17) and no lone surrogates",
               "`x += y` / `x *= n` are run as operator.iadd / operator.imul on a pool value that stays in the pool (model: the plain "
               "operator); operands of + / join / splice are FmtStr or str (other types raise TypeError/NotImplemented: outside)",
               "splice/append positions are non-negative ints with start <= end (the domain of C09; for end < start the code "
               "slices runs with negative offsets, which the value-level splice model does not cover)",
               "an observation interrupted by an exception (KeyboardInterrupt, an error in a signal handler) writes no memo field "
               "of the FmtStr (model: Op.obsInterrupted; only the color_str of the runs already rendered is memoised) - partial "
               "memo writes are exactly what the `obsint` steps (deterministic fault injection at the k-th per-run call) expose",
               "the garbage objects an operation allocates and drops (temporary lists, intermediate FmtStr of *, fmtstr's "
               "from_str object) are modelled but cannot be observed on the real side; only pool values are compared"]
LEVEL_NOTE = ("trusted: Lean kernel + propext/Classical.choice/Quot.sound, the hand-written heap model (a transcription of the "
              "allocation/aliasing/memo behaviour of formatstring.py, tied to /repo only by the per-run correspondence: object "
              "identity of FmtStr / run list / run / attribute-dict objects, memo flags, runs), harness/extract_more_heap.py, the wire "
              "codec. The frame and cache theorems are proofs about that model. The GUARDS clause (item assignment and attribute-dict "
              "mutation raise) is carried by the tie and the guard oracle on the real code plus the regenerated table theorem "
              "C13_guards_table; the Lean guard theorems only record the model's reading. D24 (re-callable __init__) is repaired; what an "
              "in-place change would do is a regression theorem. splice with end < start and lazily consumed generators are outside "
              "the model and judged by the oracle alone")
TRUSTED = ["C13: the heap model's notion of object identity/aliasing (lean/Curtsies/Model/Heap.lean), validated per run by "
           "comparing `is`-structure of FmtStr objects, run lists and run objects; value-level data the model takes as "
           "given (regex split positions, str-method results, shared_atts, ChunkSplitter pieces) come from the real run"]

WIDE, COMB = widthenv.WIDE, widthenv.COMB
ALPHABET = "abcab " + WIDE + COMB
RARE = "\n\x01"
KEYS = wire.SORTED_KEYS

# ------------------------------------------------------------------------------------------------------------
# non-perturbing views
# ------------------------------------------------------------------------------------------------------------

_view_cache = {}
_cs_cache = {}


def key_of(f):
    return tuple((c.s, tuple(sorted(c.atts.items()))) for c in f.chunks)


def raw_s(f):
    return "".join(c.s for c in f.chunks)


def fresh_color_str(s, atts_items):
    k = (s, atts_items)
    r = _cs_cache.get(k)
    if r is None:
        r = _cs_cache[k] = Chunk(s, dict(atts_items)).color_str
    return r


def _enc_key(key):
    try:
        return "-" if not key else ";".join(wire.enc_text(s) + "|" + wire.enc_atts(dict(a)) for s, a in key)
    except wire.Unencodable:
        # attributes outside the model's domain (only reachable when a guard failed): never equal to a model reply
        return "?unencodable"


def _try(fn):
    try:
        return fn()
    except Exception as e:  # noqa: BLE001 - a view that raises is itself the view
        return "E:" + type(e).__name__


def view_of_key(key):
    """all views of a value, computed by the real code on brand-new objects (total: a view that raises is recorded
    as the exception kind)"""
    v = _view_cache.get(key)
    if v is None:
        g = FmtStr(*(Chunk(s, dict(a)) for s, a in key))
        st = _try(lambda: str(g))
        v = dict(s=_try(lambda: g.s), len=_try(lambda: len(g)), width=_try(lambda: g.width), str=st, repr=_try(lambda: repr(g)),
                 cells=tuple((ch, a) for s, a in key for ch in s),
                 enc=_enc_key(key), enc_render=wire.enc_text(st))
        if len(_view_cache) > 200000:
            _view_cache.clear()
        _view_cache[key] = v
    return v


MISSING = object()
SLOTS = ("_unicode", "_len", "_s", "_width")
MISSING_SLOTS = set()


def slot(f, name):
    """a private memo slot of the implementation, read only when it exists (it sharpens the check); MISSING when the
    implementation has no such attribute (renamed / re-represented): then only the public accessors judge"""
    try:
        d = vars(f)
    except TypeError:
        MISSING_SLOTS.add(name)
        return MISSING
    if name not in d:
        MISSING_SLOTS.add(name)
        return MISSING
    return d[name]


def oracle_view(v):
    return (v["s"], v["len"], v["width"], v["str"], v["repr"], v["cells"])


def entry(f, key, v):
    cs = f.chunks
    memo = "".join("?" if x is MISSING else "0" if x is None else "1" for x in (slot(f, n) for n in SLOTS))
    cmemo = "".join("1" if "color_str" in getattr(c, "__dict__", {}) else "0" for c in cs)
    w = v["width"]
    return "%d:%d:%s:%s:%s:%s!%s!%s!%s!%s" % (id(f), id(cs), ".".join(str(id(c)) for c in cs), memo, cmemo,
                                              ".".join(str(id(c.atts)) for c in cs), v["enc"], v["enc_render"], v["len"],
                                              w if isinstance(w, str) else "w%d" % w)


# ------------------------------------------------------------------------------------------------------------
# one step on the real code
# ------------------------------------------------------------------------------------------------------------

def enc_arg(a):
    return "p%d" % a[1] if a[0] == "p" else "s" + wire.enc_text(a[1])


def enc_attsd(a):
    return wire.enc_atts(a) or "-"


def shared_token(f):
    try:
        return "a" + enc_attsd(dict(f.shared_atts))
    except Exception as e:  # noqa: BLE001
        return wire.exc_kind(e)


def split_bounds(s, sep, regex):
    if sep is None:
        pat = r"\s+"
    elif not regex:
        pat = re.escape(sep)
    else:
        pat = sep
    ms = list(re.finditer(pat, s))
    return list(zip(chain((0,), (m.end() for m in ms)), chain((m.start() for m in ms), (len(s),))))


def splitlines_bounds(s, keepends):
    out, start = [], 0
    for we, woe in zip(s.splitlines(True), s.splitlines(False)):
        out.append((start, start + (len(we) if keepends else len(woe))))
        start += len(we)
    return out


def enc_bounds(bs):
    return ",".join("%d:%d" % b for b in bs) or "-"


def deleg_data(s, name, args):
    """outcome of the str method on the plain text (value-level data for the model)"""
    try:
        r = getattr(s, name)(*args)
    except Exception as e:  # noqa: BLE001
        return wire.exc_kind(e)
    if isinstance(r, bytes):
        return "N"                 # bytes are returned unchanged (not wrapped)
    if isinstance(r, str):
        return "L" + wire.enc_tf(r)
    if isinstance(r, list):
        return "L" + "~".join(wire.enc_tf(x) for x in r)
    return "N"


class _Interrupt(BaseException):
    """private exception of the fault injector (a BaseException, like KeyboardInterrupt)"""


# per-run accessors an observation may go through, whichever the loop of the implementation calls: every one is hooked,
# each with its own counter, and the interrupt lands at the k-th use of any of them
PER_RUN = {"str": ("__str__", "color_str"), "len": ("__len__", "s"), "s": ("s",), "width": ("width", "s")}
EQ_DIFFERS = [0]
INJECT = {w: dict(steps=0, fired=0) for w in PER_RUN}       # coverage of the fault injector over the whole run


def _hooked(orig, hit):
    """the class attribute `orig` (plain method, property, cached_property or any other descriptor) with `hit()` run
    before every use"""
    if isinstance(orig, property):
        return property(lambda self: (hit(), orig.fget(self))[1])
    if callable(orig):
        def patched(self):
            hit()
            return orig(self)
        return patched
    return property(lambda self: (hit(), orig.__get__(self, type(self)))[1])


def interrupted(fn, which, k):
    """run fn() while the k-th use of a per-run accessor the observation goes through (Chunk.__str__ / .color_str /
    __len__ / .s / .width) raises _Interrupt instead of running. -> (fired, result of fn when it was not interrupted).
    Accessors the class does not have are skipped; with none left the observation simply runs uninterrupted."""
    INJECT[which]["steps"] += 1
    saved = {}
    for name in PER_RUN[which]:
        orig = Chunk.__dict__.get(name, MISSING)
        if orig is MISSING:
            MISSING_SLOTS.add("Chunk." + name)
            continue
        count = [0]

        def hit(count=count):
            count[0] += 1
            if count[0] == k:
                raise _Interrupt()
        saved[name] = orig
        setattr(Chunk, name, _hooked(orig, hit))
    try:
        return False, fn()
    except _Interrupt:
        INJECT[which]["fired"] += 1
        return True, None
    finally:
        for name, orig in saved.items():
            setattr(Chunk, name, orig)


def open_gen(f, cols):
    """a live width_aware_splitlines generator plus what an EAGER computation on an equal, unshared value gives"""
    fresh = FmtStr(*(Chunk(c.s, dict(c.atts)) for c in f.chunks))
    try:
        expected = [key_of(l) for l in fresh.width_aware_splitlines(cols)]
    except Exception as e:  # noqa: BLE001
        expected = wire.exc_kind(e)
    return dict(it=f.width_aware_splitlines(cols), expected=expected, i=0, errors=[], cols=cols)


def next_gen(g):
    """advance one live generator; every produced line is judged against the eager computation"""
    exp = g["expected"]
    try:
        line = next(g["it"])
    except StopIteration:
        if isinstance(exp, list) and g["i"] != len(exp):
            g["errors"].append("lazily consumed width_aware_splitlines(%d) stopped after %d lines, eager computation gives %d"
                               % (g["cols"], g["i"], len(exp)))
        return None
    k = key_of(line)
    if not isinstance(exp, list) or g["i"] >= len(exp) or exp[g["i"]] != k:
        g["errors"].append("lazily consumed width_aware_splitlines(%d): line %d is %r, eager computation on an equal value gives %r"
                           % (g["cols"], g["i"], k, exp[g["i"]] if isinstance(exp, list) and g["i"] < len(exp) else exp))
    g["i"] += 1
    return line


def exec_step(d, pool, gens=None):
    """-> (model tokens, thunk running the real operation and returning (kind, value))
    kind: 'refs' (list of FmtStr), 'text', 'int', 'bool', 'opaque', 'none'.  `gens`: open
    width_aware_splitlines generators (oracle-only programs)."""
    op = d["op"]
    f = pool[d["a"]] if "a" in d else None
    a = d.get("a")
    arg = lambda x: pool[x[1]] if x[0] == "p" else x[1]
    one = lambda fn: (lambda: ("refs", [fn()]))
    if op == "lit":
        return ["lit", wire.enc_chunks(d["chunks"])], one(lambda: wire.mk_fmt(d["chunks"]))
    if op == "fmtstr":
        return ["fmtstr", wire.enc_tf(d["t"]), enc_attsd(d["atts"])], one(lambda: fmtstr(d["t"], **d["atts"]))
    if op == "add":
        return ["add", str(a), str(d["b"])], one(lambda: f + pool[d["b"]])
    if op == "addstr":
        return ["addstr", str(a), wire.enc_tf(d["t"])], one(lambda: f + d["t"])
    if op == "raddstr":
        return ["raddstr", str(a), wire.enc_tf(d["t"])], one(lambda: d["t"] + f)
    if op == "mul":
        return ["mul", str(a), str(d["n"])], one(lambda: f * d["n"])
    # augmented assignment: `x += y`, `x *= n` on an immutable value is `x = x + y` / `x = x * n` - a NEW value, the old
    # one (which stays in the pool under its index) unchanged.  Same model operation as the plain operator.
    if op == "iadd":
        return ["add", str(a), str(d["b"])], one(lambda: operator.iadd(f, pool[d["b"]]))
    if op == "iaddstr":
        return ["addstr", str(a), wire.enc_tf(d["t"])], one(lambda: operator.iadd(f, d["t"]))
    if op == "imul":
        return ["mul", str(a), str(d["n"])], one(lambda: operator.imul(f, d["n"]))
    if op == "rmul":                       # __rmul__ = __mul__
        return ["mul", str(a), str(d["n"])], one(lambda: d["n"] * f)
    if op == "eq":
        return ["eq", str(a), enc_arg(d["other"])], (lambda: ("bool", f == arg(d["other"])))
    if op == "hash":
        return ["hash", str(a)], (lambda: ("opaque", hash(f)))
    if op == "obsint":                     # an observation interrupted at the k-th per-run call
        which, k = d["which"], d["k"]
        fn = {"str": lambda: ("text", str(f)), "len": lambda: ("int", len(f)), "s": lambda: ("text", f.s),
              "width": lambda: ("int", f.width)}[which]

        toks = [which, str(a)]

        def run():
            # whether the k-th per-run call happens (memo unset, enough runs, no earlier ValueError) is OBSERVED, not
            # predicted from private slots: the request token is amended in place once the outcome is known
            fired, r = interrupted(fn, which, k)
            if fired:
                toks[:] = ["obsint", which, str(a), str(k)]
                return ("opaque", None)
            return r
        return toks, run
    if op == "wsplit_open":                # oracle-only: the generator stays open across later steps
        def run():
            gens.append(open_gen(f, d["cols"]))
            if "b" in d:                   # a second live generator over a value sharing run objects with the first
                gens.append(open_gen(pool[d["b"]], d["cols2"]))
            return ("opaque", None)
        return ["oracle-only"], run
    if op == "wsplit_next":
        def run():
            if not gens:
                return ("opaque", None)
            line = next_gen(gens[d["g"] % len(gens)])
            return ("refs", [line]) if line is not None else ("opaque", None)
        return ["oracle-only"], run
    if op == "join":
        return (["join", str(a)] + [enc_arg(x) for x in d["items"]]), one(lambda: f.join([arg(x) for x in d["items"]]))
    if op == "getint":
        return ["getitem", str(a), "int", str(d["i"])], one(lambda: f[d["i"]])
    if op == "getslice":
        st = d.get("step")
        return (["getitem", str(a), "slice", wire.enc_optint(d["x"]), wire.enc_optint(d["y"]), "1" if st is not None else "0"],
                one(lambda: f[d["x"]:d["y"]:st]))
    if op == "splice":
        return (["splice", str(a), enc_arg(d["new"]), str(d["start"]), wire.enc_optint(d["end"])],
                one(lambda: f.splice(arg(d["new"]), d["start"], d["end"])))
    if op == "append":
        return ["append", str(a), enc_arg(d["new"])], one(lambda: f.append(arg(d["new"])))
    if op == "cwna":
        return ["cwna", str(a), enc_attsd(d["atts"])], one(lambda: f.copy_with_new_atts(**d["atts"]))
    if op == "rewrap":
        return ["cwna", str(a), enc_attsd(d["atts"])], one(lambda: fmtstr(f, **d["atts"]))
    if op == "nwar":
        return ["nwar", str(a), ",".join(d["keys"]) or "-"], one(lambda: f.new_with_atts_removed(*d["keys"]))
    if op == "cwns":
        return ["cwns", str(a), wire.enc_tf(d["t"])], one(lambda: f.copy_with_new_str(d["t"]))
    if op == "copy":
        return ["copy", str(a)], one(lambda: f.copy())
    if op == "split":
        if d["sep"] == "" and not d["regex"]:
            bt = "E:ValueError"            # rejected after `s = self.s`
        else:
            bt = enc_bounds(split_bounds(raw_s(f), d["sep"], d["regex"]))
        return ["slices", str(a), bt], (lambda: ("refs", f.split(d["sep"], regex=d["regex"])))
    if op == "splitlines":
        bs = splitlines_bounds(raw_s(f), d["keepends"])
        return ["slices", str(a), enc_bounds(bs)], (lambda: ("refs", f.splitlines(d["keepends"])))
    if op in ("ljust", "rjust"):
        fill = d["fill"]
        ft = "N" if fill is None else "t" + wire.enc_text(getattr(raw_s(f), op)(d["w"], fill))
        return (["just", "L" if op == "ljust" else "R", str(a), str(d["w"]), ft, shared_token(f)],
                one(lambda: getattr(f, op)(d["w"], fill) if fill is not None else getattr(f, op)(d["w"])))
    if op == "wsliceint":
        return ["wslice", str(a), "int", str(d["i"])], one(lambda: f.width_aware_slice(d["i"]))
    if op == "wslice":
        return (["wslice", str(a), "slice", wire.enc_optint(d["x"]), wire.enc_optint(d["y"])],
                one(lambda: f.width_aware_slice(slice(d["x"], d["y"]))))
    if op == "wsplit":
        # the yielded lines are data for the model: taken from a dry run on a COPY (same runs, other objects)
        g = FmtStr(*(Chunk(c.s, dict(c.atts)) for c in f.chunks))
        try:
            lines = list(g.width_aware_splitlines(d["cols"]))
        except Exception:  # noqa: BLE001
            lines = []
        toks = [_enc_key(key_of(l)) + "~" + ("1" if wcswidth(raw_s(l)) == d["cols"] else "0") for l in lines]

        def run():
            # the generator is stepped by hand: each yielded line is looked at BEFORE the generator resumes
            # (and runs `del chunks_of_line[:]`), so that a line sharing the local list would be seen to change
            out, early = [], []
            for l in f.width_aware_splitlines(d["cols"]):
                out.append(l)
                early.append(key_of(l))
            return ("refs", out, early)
        return ["wsplit", str(a), str(d["cols"])] + toks, run
    if op == "deleg":
        args = tuple(d["args"])

        def run():
            r = getattr(f, d["name"])(*args)
            if isinstance(r, FmtStr):
                return ("refs", [r])
            if isinstance(r, list):
                return ("refs", list(r))
            return ("refs", [])
        return ["deleg", str(a), deleg_data(raw_s(f), d["name"], args), shared_token(f)], run
    if op == "str":
        return ["str", str(a)], (lambda: ("text", str(f)))
    if op == "len":
        return ["len", str(a)], (lambda: ("int", len(f)))
    if op == "s":
        return ["s", str(a)], (lambda: ("text", f.s))
    if op == "width":
        return ["width", str(a)], (lambda: ("int", f.width))
    if op == "colorstr":
        return ["colorstr", str(a), str(d["k"])], (lambda: ("text", f.chunks[d["k"]].color_str))
    if op == "setitem":
        def run():
            f[d["i"]] = d["x"]
            return ("none", None)
        return ["setitem", str(a)], run
    if op == "attsmut":
        def run():
            getattr(f.chunks[d["k"]].atts, d["name"])(*d["args"])
            return ("none", None)
        return ["attsmut", str(a), str(d["k"]), d["name"]], run
    raise KeyError(op)


OBS = ("str", "len", "s", "width")


def run_program(case, collect=None):
    """Run the program on the real code. -> (reply in the driver's syntax, findings, stats)"""
    pool, first, findings, steps_out = [], [], [], []
    stats = dict(aliasing_after_memo=False, ops=[])
    memo_filled = False
    stop = False
    gens = []
    stats["pre"] = []                      # for every executed step: the runs of every pool value BEFORE the step
    last_encs = []
    for i, d in enumerate(case["steps"]):
        if stop:
            break
        stats["pre"].append(list(last_encs))
        toks, thunk = exec_step(d, pool, gens)
        if collect is not None:
            collect.append(toks)
        before_ids = {id(p) for p in pool}
        before_chunks = {id(c) for p in pool for c in p.chunks}
        obs_op = d["which"] if d["op"] == "obsint" else d["op"]
        obs_key = key_of(pool[d["a"]]) if obs_op in OBS + ("colorstr",) else None
        try:
            out = thunk()
            kind, val = out[0], out[1]
            if kind == "refs":
                res = "r%d" % len(val)
                for j, r in enumerate(val):
                    if id(r) in before_ids or any(id(c) in before_chunks for c in r.chunks):
                        if memo_filled:
                            stats["aliasing_after_memo"] = True
                    pool.append(r)
                    first.append(oracle_view(view_of_key(out[2][j])) if len(out) > 2 else None)
            elif kind == "text":
                # terminal strings are tagged T: compared by what they display at property level, by bytes below it
                res = ("T" if obs_op in ("str", "colorstr") else "t") + wire.enc_text(val)
            elif kind == "int":
                res = "i%d" % val
            elif kind == "bool":
                res = "b1" if val else "b0"
                want = view_of_key(key_of(pool[d["a"]]))["str"] == (view_of_key(key_of(pool[d["other"][1]]))["str"]
                                                                     if d["other"][0] == "p" else d["other"][1])
                if val != want:
                    # which strings compare equal is C19's statement, not C13's: counted and noted, never a violation
                    EQ_DIFFERS[0] += 1
            elif kind == "opaque":
                res = "o"
            else:
                res = "returned"
                if d["op"] in ("setitem", "attsmut"):
                    findings.append(("step %d: %s did not raise: %r" % (i, d["op"], d), d))
                    # the value may now be outside what the model can express: report and stop this program here
                    stop = True
        except Exception as e:  # noqa: BLE001
            res = wire.exc_kind(e)
            if d["op"] in ("setitem", "attsmut"):
                res = "G:raised:" + res[2:]
            kind, val = "raised", None
        if obs_key is not None:
            memo_filled = True
        for g in gens:
            for w in g["errors"]:
                findings.append(("step %d: %s" % (i, w), d))
            g["errors"] = []
        # observation results must equal the freshly computed view
        if obs_key is not None and kind in ("text", "int"):
            v = view_of_key(obs_key)
            want = {"str": v["str"], "len": v["len"], "s": v["s"], "width": v["width"]}.get(obs_op)
            if obs_op == "colorstr":
                want = fresh_color_str(*obs_key[d["k"]])
            if val != want:
                findings.append(("step %d: %s returned %r, freshly computed %r" % (i, obs_op, val, want), d))
            # text and length are also recomputed from the runs without calling the implementation (a fresh object could
            # share a cache with the observed one)
            indep = {"len": len(v["cells"]), "s": "".join(ch for ch, _ in v["cells"])}.get(obs_op, val)
            if val != indep:
                findings.append(("step %d: %s returned %r, the runs hold %r" % (i, obs_op, val, indep), d))
        if obs_key is not None and kind == "raised" and obs_op == "width" and view_of_key(obs_key)["width"] != "E:ValueError":
            findings.append(("step %d: width raised but a fresh copy has width %r" % (i, view_of_key(obs_key)["width"]), d))
        # snapshots of EVERY pool value, memo fields untouched
        ents = []
        for k, p in enumerate(pool):
            key = key_of(p)
            v = view_of_key(key)
            if first[k] is None:
                first[k] = oracle_view(v)
            elif oracle_view(v) != first[k]:
                findings.append(("step %d (%s): value of pool[%d] changed: was %r now %r" % (i, d["op"], k, first[k], oracle_view(v)), d))
            # private memo slots are read only where they exist (slot()); the public accessors judge in any case
            # (observation steps above, final sweep below)
            for nm, fresh in (("_unicode", v["str"]), ("_len", v["len"]), ("_s", v["s"]), ("_width", v["width"])):
                memo = slot(p, nm)
                if memo is not None and memo is not MISSING:
                    memo_filled = True
                    if memo != fresh:
                        findings.append(("step %d (%s): memo %s of pool[%d] is %r, fresh value %r" % (i, d["op"], nm, k, memo, fresh), d))
            for c, ck in zip(p.chunks, key):
                m = getattr(c, "__dict__", {}).get("color_str")
                if m is not None:
                    memo_filled = True
                    if m != fresh_color_str(*ck):
                        findings.append(("step %d (%s): color_str memo of a run of pool[%d] is %r, fresh %r" % (i, d["op"], k, m, fresh_color_str(*ck)), d))
            ents.append(entry(p, key, v))
        # D1 = "the model's operation follows the discipline" - expected for every step
        dflag = "D1"
        if res == "returned":
            res = "r0"
        steps_out.append("%s %s # %s" % (res, dflag, " ".join(ents)))
        last_encs = [e.split("!")[1] for e in ents]
        stats["ops"].append(d["op"])
    # final sweep through the public API: memoised == first snapshot == FmtStr(*f.chunks)
    for k, p in enumerate(pool):
        def pub(x):
            return (_try(lambda: x.s), _try(lambda: len(x)), _try(lambda: x.width), _try(lambda: str(x)), _try(lambda: repr(x)),
                    tuple((ch, tuple(sorted(c.atts.items()))) for c in x.chunks for ch in c.s))
        got = pub(p)
        if got != first[k]:
            findings.append(("end: public views of pool[%d] are %r, first snapshot %r" % (k, got, first[k]), None))
        again = pub(FmtStr(*p.chunks))
        if again != got:
            findings.append(("end: FmtStr(*f.chunks) of pool[%d] gives %r, memoised %r" % (k, again, got), None))
    stats["chars"] = set("".join(raw_s(p) for p in pool))
    return "ok " + " / ".join(steps_out), findings, stats


# ------------------------------------------------------------------------------------------------------------
# canonicalisation: renumber object ids by first appearance
# ------------------------------------------------------------------------------------------------------------

def canon(reply):
    if not reply.startswith("ok "):
        return reply
    fm, lm, cm, am = {}, {}, {}, {}
    num = lambda m, x: m.setdefault(x, len(m))
    out = []
    for step in reply[3:].split(" / "):
        head, _, ents = step.partition(" # ")
        es = []
        for e in (ents.split(" ") if ents else []):
            try:
                ids, enc, rend, ln, w = e.split("!")
                fid, lid, cids, memo, cmemo, aids = ids.split(":")
            except ValueError:
                es.append(e)
                continue
            es.append((num(fm, fid), num(lm, lid), tuple(num(cm, c) for c in cids.split(".")) if cids else (), memo, cmemo,
                       tuple(num(am, c) for c in aids.split(".")) if aids else (), enc, rend, ln, w))
        out.append((head.strip(), tuple(es)))
    return tuple(out)


_disp_cache = {}


def disp(enc):
    """what a terminal shows for a terminal string given in wire form: per-character (char, effective formatting),
    the final graphic state, non-SGR controls, parser mode (harness/sgrterm.py, the mirror of Spec/Sgr.lean)"""
    r = _disp_cache.get(enc)
    if r is None:
        cells, g, ctls, mode = sgrterm.display(wire.dec_text(enc))
        r = _disp_cache[enc] = (tuple(cells), g, tuple(ctls), mode)
        if len(_disp_cache) > 300000:
            _disp_cache.clear()
    return r


def canon_prop(reply):
    """PROPERTY level: exactly what C13 speaks about.  Per step: the result (a terminal string by what it DISPLAYS, a
    guard by the fact that it raised) and, for every pool value, its per-character formatting (hence text), length,
    width or the exception kind, and the display of its terminal string.  NOT compared here (representation level,
    `canon`): object identity / aliasing, run layout, which memo slots are filled, the exact bytes of str()."""
    if not reply.startswith("ok "):
        return reply
    out = []
    for step in reply[3:].split(" / "):
        head, _, ents = step.partition(" # ")
        res, _, dflag = head.strip().partition(" ")
        if res.startswith("T"):
            res = ("T", disp(res[1:]))
        elif res.startswith("G:raised"):
            res = "G:raised"
        elif res.startswith("E:"):
            res = "raised"         # the property names no exception type: the exact kind is representation level
        elif res in ("b0", "b1"):
            # `==` is in the programs as an observation that renders both operands; which strings compare equal is
            # C19's subject (the oracle still checks the answer against the fresh terminal strings of the real code)
            res = "b"
        es = []
        for e in (ents.split(" ") if ents else []):
            parts = e.split("!")
            if len(parts) != 5:
                es.append(e)
                continue
            _, enc, rend, ln, w = parts
            try:
                cells = tuple(wire.cells_of_chunks(wire.dec_fmt(enc)))
            except Exception:  # noqa: BLE001 - an unencodable value is compared as it is
                cells = enc
            es.append((cells, ln, "raised" if w.startswith("E:") else w, disp(rend)))
        out.append((res, dflag, tuple(es)))
    return tuple(out)


def inside_quantifier(case):
    """programs built from the operation set the property names; slice STEPS are not part of it (the library refuses
    them today, a later version may accept them)"""
    return not any(isinstance(d, dict) and d.get("step") is not None for d in case["steps"])


# ------------------------------------------------------------------------------------------------------------
# generators
# ------------------------------------------------------------------------------------------------------------

def rtext(r, lo=0, hi=5, rare=0.06):
    n = r.randint(lo, hi)
    return "".join(r.choice(RARE) if r.random() < rare else r.choice(ALPHABET) for _ in range(n))


def rchunks(r):
    n = r.choice([0, 1, 1, 2, 2, 3])
    return [(rtext(r, 0, 3), dict(r.choice(PALETTE))) for _ in range(n)]


def ratts(r):
    return dict(r.choice(PALETTE + [{"bold": False}, {"bg": 42}, {"fg": 34, "bg": 45}]))


def rarg(r, pool, small):
    if r.random() < 0.6 and small:
        return ["p", r.choice(small)]
    return ["s", rtext(r, 0, 3, rare=0.0)]


DELEG = [("upper", []), ("lower", []), ("title", []), ("strip", []), ("lstrip", ["a"]), ("replace", ["a", "bb"]),
         ("center", [7]), ("zfill", [6]), ("rsplit", []), ("rsplit", ["a"]), ("partition", ["a"]), ("find", ["a"]),
         ("startswith", ["a"]), ("index", ["zz"]), ("isalpha", []), ("capitalize", []), ("swapcase", []),
         ("expandtabs", [2]), ("count", ["a"]), ("encode", []), ("rstrip", []), ("casefold", [])]


def pick_step(r, pool, muts):
    """random step descriptor over the current (real) pool; only raw run data is read"""
    n = len(pool)
    lens = [sum(len(c.s) for c in p.chunks) for p in pool]
    small = [k for k in range(n) if lens[k] <= 10]
    # prefer recent values and values that already took part in something
    a = r.choice(small) if small and r.random() < 0.8 else r.randrange(n)
    if r.random() < 0.4:
        a = max(0, n - 1 - r.randint(0, 3))
    L = lens[a]
    nch = len(pool[a].chunks)
    idx = lambda: r.choice([None] + list(range(-L - 1, L + 2)))
    kind = r.choice(["obs"] * 9 + ["add", "add", "addstr", "raddstr", "mul", "join", "join", "getint", "getslice", "getslice",
                                   "getslice", "splice", "splice", "splice", "append", "append", "cwna", "rewrap", "nwar",
                                   "cwns", "copy", "split", "split", "splitlines", "rmul", "eq", "eq", "hash", "iadd", "iadd", "iaddstr", "imul", "ljust", "rjust", "wslice", "wslice",
                                   "wsliceint", "wsplit", "wsplit", "deleg", "deleg", "setitem", "attsmut", "lit", "fmtstr",
                                   "colorstr"])
    if kind == "obs":
        if r.random() < 0.25 and nch:
            return dict(op="obsint", which=r.choice(OBS), a=a, k=r.randint(1, nch))
        return dict(op=r.choice(OBS), a=a)
    if kind == "lit":
        return dict(op="lit", chunks=rchunks(r))
    if kind == "fmtstr":
        return dict(op="fmtstr", t=rtext(r, 0, 4), atts=ratts(r))
    if kind == "add":
        return dict(op="add", a=a, b=r.choice(small) if small else a)
    if kind in ("addstr", "raddstr"):
        return dict(op=kind, a=a, t=rtext(r, 0, 3))
    if kind == "mul":
        if L > 8:
            a = r.choice(small) if small else a
        return dict(op="mul", a=a, n=r.choice([-1, 0, 1, 2, 2, 3]))
    if kind == "iadd":
        return dict(op="iadd", a=a, b=r.choice(small) if small else a)
    if kind == "iaddstr":
        return dict(op="iaddstr", a=a, t=rtext(r, 0, 3))
    if kind == "imul":
        if L > 8:
            a = r.choice(small) if small else a
        return dict(op="imul", a=a, n=r.choice([0, 1, 2, 3]))
    if kind == "rmul":
        if L > 8:
            a = r.choice(small) if small else a
        return dict(op="rmul", a=a, n=r.choice([0, 1, 2, 3]))
    if kind == "eq":
        other = ["p", r.randrange(n)] if r.random() < 0.7 else ["s", rtext(r, 0, 3)]
        if r.random() < 0.2:
            other = ["p", a]
        return dict(op="eq", a=a, other=other)
    if kind == "hash":
        return dict(op="hash", a=a)
    if kind == "join":
        return dict(op="join", a=a, items=[rarg(r, pool, small) for _ in range(r.choice([0, 1, 2, 2, 3]))])
    if kind == "getint":
        return dict(op="getint", a=a, i=r.randint(-L - 1, L + 1))
    if kind == "getslice":
        if r.random() < 0.3 and nch:
            # boundary-aligned: exactly one whole run (the shared-object case)
            k = r.randrange(nch)
            st = sum(len(c.s) for c in pool[a].chunks[:k])
            return dict(op="getslice", a=a, x=st, y=st + len(pool[a].chunks[k].s))
        return dict(op="getslice", a=a, x=idx(), y=idx(), step=r.choice([None] * 12 + [1]))
    if kind == "splice":
        new = rarg(r, pool, small)
        if r.random() < 0.35:
            new = ["s", ""] if r.random() < 0.5 else new
        start = r.randint(0, L + 1)
        end = r.choice([None, None, start, r.randint(start, L + 2), r.randint(start, L + 1)])
        if r.random() < 0.3 and L:
            # same-size replacement (what setitem does), with characters of another width
            new = ["s", "".join(r.choice("a" + WIDE + COMB) for _ in range(r.randint(1, 2)))]
            start = r.randint(0, max(0, L - len(new[1])))
            end = start + len(new[1])
        return dict(op="splice", a=a, new=new, start=start, end=end)
    if kind == "append":
        return dict(op="append", a=a, new=rarg(r, pool, small) if r.random() < 0.7 else ["s", ""])
    if kind in ("cwna", "rewrap"):
        return dict(op=kind, a=a, atts=ratts(r))
    if kind == "nwar":
        return dict(op="nwar", a=a, keys=r.sample(KEYS, r.randint(0, 3)))
    if kind == "cwns":
        return dict(op="cwns", a=a, t=rtext(r, 0, 4))
    if kind == "copy":
        return dict(op="copy", a=a)
    if kind == "split":
        sep = r.choice([None, None, "a", " ", "b", "ab", WIDE, ""])
        if r.random() < 0.15:
            return dict(op="split", a=a, sep=r.choice(["a|b", "[ab]+", " ?a"]), regex=True)
        return dict(op="split", a=a, sep=sep, regex=False)
    if kind == "splitlines":
        return dict(op="splitlines", a=a, keepends=r.random() < 0.5)
    if kind in ("ljust", "rjust"):
        return dict(op=kind, a=a, w=r.randint(0, L + 3), fill=r.choice([None, None, None, "*", " "]))
    if kind == "wslice":
        return dict(op="wslice", a=a, x=r.choice([None] + list(range(-L - 1, 2 * L + 2))), y=r.choice([None] + list(range(-L - 1, 2 * L + 2))))
    if kind == "wsliceint":
        return dict(op="wsliceint", a=a, i=r.randint(-L - 1, 2 * L + 1))
    if kind == "wsplit":
        return dict(op="wsplit", a=a, cols=r.choice([1, 2, 2, 3, 3, 4, 5]))
    if kind == "deleg":
        name, args = r.choice(DELEG)
        return dict(op="deleg", a=a, name=name, args=list(args))
    if kind == "setitem":
        return dict(op="setitem", a=a, i=r.randint(0, max(0, L - 1)), x=r.choice(["x", ""]))
    if kind == "colorstr":
        if not nch:
            return dict(op="str", a=a)
        return dict(op="colorstr", a=a, k=r.randrange(nch))
    if kind == "attsmut":
        if not nch or not muts:
            return dict(op="len", a=a)
        name, args = r.choice(muts)
        return dict(op="attsmut", a=a, k=r.randrange(nch), name=name, args=args)
    raise KeyError(kind)


def gen_random(r, nsteps, muts, oracle_only=False):
    """generate by running: each step is chosen looking at the real pool so far.  oracle_only: also calls the model
    does not cover (splice with end < start, a width_aware_splitlines generator consumed lazily between other
    operations); such programs are judged by the oracle alone"""
    steps, pool, gens = [], [], []
    for d in (dict(op="lit", chunks=rchunks(r)), dict(op="fmtstr", t=rtext(r, 1, 4), atts=ratts(r)),
              dict(op="lit", chunks=[(rtext(r, 1, 2), dict(PALETTE[1])), (rtext(r, 1, 2), dict(PALETTE[2]))])):
        steps.append(d)
    k = 0
    broken = False
    while len(steps) < nsteps and not broken:
        # bring the real pool up to date
        while k < len(steps):
            _, thunk = exec_step(steps[k], pool, gens)
            try:
                out = thunk()
                if out[0] == "refs":
                    pool.extend(out[1])
                elif out[0] == "none":
                    broken = True          # a guard did not raise: run_program reports it and stops there
            except Exception:  # noqa: BLE001
                pass
            k += 1
        if len(pool) > 40 or broken:
            break
        steps.append(pick_extra(r, pool) if oracle_only and r.random() < 0.3 else pick_step(r, pool, muts))
    return dict(kind="oracle-only" if oracle_only else "random", steps=steps)


def pick_extra(r, pool):
    n = len(pool)
    a = r.randrange(n)
    L = sum(len(c.s) for c in pool[a].chunks)
    k = r.choice(["splice_rev", "wsplit_open", "wsplit_next", "wsplit_next", "wsplit_next", "literal_render", "literal_render"])
    if k == "literal_render":
        # a plain str operand of + / copy_with_new_str is taken literally, also when it is the terminal string of another
        # value (texts with ESC are outside the model, which is why this lives in the oracle-only set)
        j = r.randrange(n)
        t = view_of_key(key_of(pool[j]))["str"]
        if isinstance(t, str) and not t.startswith("E:"):
            return dict(op=r.choice(["addstr", "raddstr", "cwns"]), a=a, t=t)
        return dict(op="len", a=a)
    if k == "splice_rev":
        start = r.randint(1, L + 1)
        return dict(op="splice", a=a, new=["s", rtext(r, 0, 2, rare=0.0)] if r.random() < 0.6 else ["p", r.randrange(n)],
                    start=start, end=r.randint(0, start - 1))
    if k == "wsplit_open":
        d = dict(op="wsplit_open", a=a, cols=r.choice([2, 2, 3, 4]))
        if r.random() < 0.7 and pool[a].chunks:
            first = pool[a].chunks[0]
            sharing = [j for j in range(n) if pool[j].chunks and pool[j].chunks[0] is first]
            d["b"] = r.choice(sharing)
            d["cols2"] = r.choice([2, 3, 4, 5])
        return d
    return dict(op="wsplit_next", g=r.randint(0, 3))


# aliasing operations A for the scenario enumeration: operands pool[0] (two runs 'ab' red, 'c' bold-on-blue),
# pool[1] (separator ', ' in two runs), pool[2] (one run).  Each yields descriptors appended after the three literals.
BASE = [dict(op="lit", chunks=[("ab", {"fg": 31}), ("c", {"bg": 44, "bold": True})]),
        dict(op="lit", chunks=[(",", {"bold": True}), (" ", {})]),
        dict(op="lit", chunks=[("x" + WIDE, {"underline": True})])]
ALIASING = [
    ("join-multichunk-sep", [dict(op="join", a=1, items=[["p", 0], ["s", "y"], ["p", 2], ["p", 0]])]),
    ("whole-run-slice", [dict(op="getslice", a=0, x=0, y=2)]),
    ("splice-returns-self", [dict(op="splice", a=0, new=["s", ""], start=1, end=None)]),
    ("append-empty", [dict(op="append", a=0, new=["s", ""])]),
    ("copy", [dict(op="copy", a=0)]),
    ("add", [dict(op="add", a=0, b=0)]),
    ("mul", [dict(op="mul", a=0, n=2)]),
    ("ljust-noop", [dict(op="cwna", a=0, atts={"bg": 42}), dict(op="ljust", a=3, w=2, fill=None)]),
    ("rjust-uniform", [dict(op="rjust", a=0, w=5, fill=None)]),
    ("split", [dict(op="split", a=0, sep="c", regex=False)]),
    ("wsplit", [dict(op="wsplit", a=0, cols=2)]),
    ("wslice-whole-run", [dict(op="wslice", a=0, x=0, y=2)]),
    ("splice-middle", [dict(op="splice", a=0, new=["p", 1], start=1, end=2)]),
    ("deleg-upper", [dict(op="deleg", a=0, name="upper", args=[])]),
    ("splice-same-size", [dict(op="splice", a=0, new=["s", WIDE], start=1, end=2)]),
    ("splice-same-size-narrow", [dict(op="splice", a=2, new=["s", "ab"], start=0, end=2)]),
    ("iadd", [dict(op="iadd", a=0, b=1)]),
    ("imul", [dict(op="imul", a=0, n=2)]),
]
FOLLOW = [
    lambda n: [dict(op="join", a=n, items=[["p", 0], ["p", n]])],
    lambda n: [dict(op="getslice", a=n, x=0, y=2)],
    lambda n: [dict(op="splice", a=n, new=["p", 0], start=1, end=2)],
    lambda n: [dict(op="append", a=n, new=["p", 1])],
    lambda n: [dict(op="add", a=n, b=0)],
    lambda n: [dict(op="mul", a=n, n=2)],
    lambda n: [dict(op="cwna", a=n, atts={"fg": 32})],
    lambda n: [dict(op="nwar", a=n, keys=["fg", "bold"])],
    lambda n: [dict(op="wsplit", a=n, cols=2)],
    lambda n: [dict(op="split", a=n, sep="b", regex=False)],
    lambda n: [dict(op="ljust", a=n, w=7, fill=None)],
    lambda n: [dict(op="wslice", a=n, x=1, y=3)],
    lambda n: [dict(op="splitlines", a=n, keepends=True)],
    lambda n: [dict(op="iadd", a=n, b=1)],
    lambda n: [dict(op="iaddstr", a=n, t="!")],
    lambda n: [dict(op="imul", a=n, n=2)],
]


def run_quiet(steps):
    """the real pool after running the descriptors"""
    pool, gens = [], []
    for d in steps:
        _, thunk = exec_step(d, pool, gens)
        try:
            out = thunk()
            if out[0] == "refs":
                pool.extend(out[1])
        except Exception:  # noqa: BLE001
            pass
    return pool


def gen_scenarios(thorough):
    obs_sets = [c for k in range(5) for c in itertools.combinations(OBS, k)]
    if not thorough:
        obs_sets = [c for c in obs_sets if len(c) in (0, 1, 4)]
    out = []
    for (name, a_steps), before in itertools.product(ALIASING, obs_sets):
        head = [dict(d) for d in BASE]
        for o in before:
            head += [dict(op=o, a=0), dict(op=o, a=1)]
        head += [dict(d) for d in a_steps]
        n = len(run_quiet(head)) - 1          # pool index of A's (last) result
        for fi, follow in enumerate(FOLLOW):
            steps = [dict(d) for d in head] + follow(n)
            for o in OBS:
                steps += [dict(op=o, a=n), dict(op=o, a=0)]
            steps += FOLLOW[(fi + 5) % len(FOLLOW)](0)
            out.append(dict(kind="scenario", name=name, before=list(before), follow=fi, steps=steps))
    # every observation interrupted at every run position, before/after a successful one, then all observations
    for which, a in itertools.product(OBS, (0, 1)):
        for k in (1, 2):
            for pre in ([], [dict(op="str", a=a)], [dict(op="add", a=a, b=a)]):
                steps = [dict(d) for d in BASE] + pre + [dict(op="obsint", which=which, a=a, k=k)]
                steps += [dict(op=o, a=a) for o in OBS] + [dict(op="getslice", a=a, x=0, y=1)]
                out.append(dict(kind="scenario", name="interrupted-" + which, steps=steps))
    return out


def gen_lazy_scenarios():
    """oracle-only: two live width_aware_splitlines generators over values sharing run objects (the same f, f + tail,
    f * 2), advanced alternately; every produced line is compared with an eager computation on an equal value"""
    out = []
    base = [dict(op="lit", chunks=[("abcdefg", {"fg": 31}), ("hij" + WIDE + "k", {"bold": True})]),
            dict(op="addstr", a=0, t="xyz"), dict(op="mul", a=0, n=2), dict(op="lit", chunks=[("abcdefghijkl", {})]),
            dict(op="add", a=3, b=3)]
    for (a, b), (c1, c2) in itertools.product([(0, 0), (0, 1), (0, 2), (1, 2), (3, 3), (3, 4)], [(3, 4), (2, 5), (3, 3)]):
        for order in ("alternate", "second-first"):
            steps = [dict(d) for d in base] + [dict(op="wsplit_open", a=a, cols=c1, b=b, cols2=c2)]
            seq = [0, 1] * 8 if order == "alternate" else [1, 0, 0, 1, 1, 0] * 3
            steps += [dict(op="wsplit_next", g=g) for g in seq]
            out.append(dict(kind="oracle-only", name="two-generators", steps=steps))
    # literal terminal strings as text: values whose terminal string equals another value's text-with-escapes
    for pre in (["len", "str"], ["str"], []):
        for mk in ("addstr", "cwns"):
            steps = [dict(op="fmtstr", t="hi", atts={"fg": 31}), dict(op="fmtstr", t="", atts={}), dict(op="fmtstr", t="x", atts={})]
            steps += [dict(op=o, a=0) for o in pre]
            steps += [dict(op=mk, a=1 if mk == "addstr" else 2, t=str(fmtstr("hi", fg=31)))]
            steps += [dict(op=o, a=3) for o in ("len", "s", "str", "width")] + [dict(op=o, a=0) for o in ("len", "s")]
            out.append(dict(kind="oracle-only", name="literal-render", steps=steps))
    return out


def strings_in(x, acc):
    if isinstance(x, str):
        acc.update(x)
    elif isinstance(x, dict):
        for v in x.values():
            strings_in(v, acc)
    elif isinstance(x, (list, tuple)):
        for v in x:
            strings_in(v, acc)


def make_line(case):
    """request line; the wcwidth table lists every character of every text and every value of the program
    (str methods create characters the generator never wrote, e.g. 'Ｅ'.lower())"""
    toks = []
    _, _, stats = run_program(case, collect=toks)
    chars = set(stats["chars"])
    strings_in(case["steps"], chars)
    env = widthenv.env_fields("".join(sorted(chars)))
    # one request per step for the property-level tie: the model starts from literal copies of the REAL pool before
    # the step (same runs, same layout) and performs that one operation - so a drift of run layout between model and
    # implementation in earlier steps cannot leak into the comparison of values
    case["step_lines"] = []
    for i, t in enumerate(toks):
        d = case["steps"][i]
        pre = stats["pre"][i] if i < len(stats["pre"]) else None
        if pre is None or t == ["oracle-only"] or d.get("step") is not None or any(e.startswith("?") for e in pre):
            case["step_lines"].append(None)        # outside the quantifier / outside the model
        else:
            case["step_lines"].append("heap1 %s / %s" % (env, " / ".join(["lit " + e for e in pre] + [" ".join(t)])))
    return "heap %s / %s" % (env, " / ".join(" ".join(t) for t in toks))


def mk_cases(ctx, nprog=None):
    muts_all = dict_mutators()
    muts = muts_all
    cases = gen_scenarios(ctx.thorough)
    ctx.exhaustive.append("scenarios: %d aliasing operations x %d observation sets before x %d follow-ups = %d programs"
                          % (len(ALIASING), len(cases) // (len(ALIASING) * len(FOLLOW)), len(FOLLOW), len(cases)))
    r = ctx.rng
    n, maxsteps = (30000, 40) if ctx.thorough else (1500, 15)
    n = nprog or n
    for _ in range(n):
        cases.append(gen_random(r, r.randint(6, maxsteps), muts))
    for c in cases:
        c["line"] = make_line(c)
    # calls the model does not cover: judged by the oracle alone
    oracle_cases = gen_lazy_scenarios() + [gen_random(r, r.randint(6, maxsteps), muts, oracle_only=True) for _ in range(n // 5)]
    return cases, oracle_cases, muts_all


# ------------------------------------------------------------------------------------------------------------
# guard oracle: item assignment and every attribute-dict mutator, on fresh objects
# ------------------------------------------------------------------------------------------------------------

def guard_cases(muts):
    out = []
    for chunks in ([("a", {})], [("ab", {"fg": 31, "bold": True})], [("a", {"bold": True}), ("b", {"bg": 44})]):
        for filled in (False, True):
            out.append(dict(kind="guard", g="setitem", chunks=chunks, filled=filled, i=0, x="x"))
            out.append(dict(kind="guard", g="setslice", chunks=chunks, filled=filled))
            out.append(dict(kind="guard", g="delitem", chunks=chunks, filled=filled))
            for k in range(len(chunks)):
                out.append(dict(kind="guard", g="chunk_atts", chunks=chunks, filled=filled, k=k))
                out.append(dict(kind="guard", g="chunk_s", chunks=chunks, filled=filled, k=k))
                for name, args in muts:
                    out.append(dict(kind="guard", g="attsmut", chunks=chunks, filled=filled, k=k, name=name, args=args))
    return out


def guard_oracle(c):
    f = wire.mk_fmt(c["chunks"])
    fresh = lambda: str(FmtStr(*(Chunk(x.s, dict(x.atts)) for x in f.chunks)))
    before = fresh()
    if c["filled"]:
        str(f), len(f), f.s, f.width
    try:
        if c["g"] == "setitem":
            f[c["i"]] = c["x"]
        elif c["g"] == "setslice":
            f[0:1] = "x"
        elif c["g"] == "delitem":
            del f[0]
        elif c["g"] == "chunk_atts":
            f.chunks[c["k"]].atts = {}
        elif c["g"] == "chunk_s":
            f.chunks[c["k"]].s = "x"
        else:
            getattr(f.chunks[c["k"]].atts, c["name"])(*c["args"])
        raised = False
    except Exception:  # noqa: BLE001
        raised = True
    after_fresh, after = fresh(), str(f)
    if not raised:
        return "%s%s did not raise (attributes now %r; str(f) %s a fresh rendering)" % (
            c["g"], "" if c["g"] != "attsmut" else " %s%r" % (c["name"], tuple(c["args"])),
            [dict(x.atts) for x in f.chunks], "==" if after == after_fresh else "!=")
    if after != before or after_fresh != before:
        return "%s raised but str(f) changed: %r -> %r (fresh %r)" % (c["g"], before, after, after_fresh)
    return None


def footprint(case, what):
    """no open known finding for C13: every failing case is an unlisted violation"""
    return None


# ------------------------------------------------------------------------------------------------------------

def check(ctx):
    cases, oracle_cases, muts_all = mk_cases(ctx)
    stash = {}

    def impl(c):
        reply, findings, stats = run_program(c)
        stash[id(c)] = (findings, stats, reply)
        return reply

    # representation level, whole programs through the model's own heap: object identity and aliasing of FmtStr / run
    # list / run / attribute-dict objects, run layout, memo fill state, exact bytes of str, exception kinds, slice steps
    ctx.tie("C13/programs-representation", cases, lambda c: c["line"], impl, canon, canon, level="representation")
    # property level, step by step: the model performs each operation on literal copies of the REAL pool (same runs) and
    # must agree on what C13 speaks about - the result (terminal strings by what they display, guards by raising,
    # raising operations as "raised") and, for EVERY pool value after the step, per-character formatting, length, width,
    # displayed terminal string.  This is what transfers the frame/cache theorems (they are about values and
    # "memo = fresh", not about identity, run layout or which memo is filled); it is insensitive to layout drift.
    budget = 6000 if ctx.thorough else len(cases)
    step_cases = [(c, i) for c in cases[:budget] for i, l in enumerate(c.get("step_lines", [])) if l is not None]

    def step_reply(ci):
        c, i = ci
        steps = stash[id(c)][2][3:].split(" / ")
        return "ok " + steps[i] if i < len(steps) else "missing-step"
    ctx.tie("C13/steps", step_cases, lambda ci: ci[0]["step_lines"][ci[1]], step_reply, canon_prop, canon_prop)
    for c in cases:
        findings, stats, _ = stash[id(c)]
        small = dict(kind=c["kind"], steps=c["steps"])
        ctx.count(small, nontrivial=stats["aliasing_after_memo"], tag=c["kind"])
        for o in stats["ops"]:
            ctx.dist["op:" + o] += 1
        for what, d in findings[:3]:
            ctx.violation(what, small, footprint(d, what) if d else None)
    for c in oracle_cases:
        _, findings, stats = run_program(c)
        small = dict(kind=c["kind"], steps=c["steps"])
        ctx.count(small, nontrivial=stats["aliasing_after_memo"], tag=c["kind"])
        for o in stats["ops"]:
            ctx.dist["op:" + o] += 1
        for what, d in findings[:3]:
            ctx.violation(what, small, footprint(d, what) if d else None)
    ctx.exhaustive.append("oracle-only programs (splice with end < start, lazily consumed width_aware_splitlines): %d" % len(oracle_cases))
    if EQ_DIFFERS[0]:
        ctx.note("== answered differently from equality of the fresh terminal strings in %d steps (C19's subject, not judged here)"
                 % EQ_DIFFERS[0])
    ctx.note("fault injector: " + ", ".join("%s %d/%d fired" % (w, c["fired"], c["steps"]) for w, c in sorted(INJECT.items())))
    dead = sorted(w for w, c in INJECT.items() if c["steps"] and not c["fired"])
    if dead:
        # the per-run hooks were never reached for these observations: the interrupted-observation coverage is lost
        # (the implementation goes through an accessor the injector does not hook) - say so and deepen the exploration
        ctx.note("COVERAGE LOST: interrupted observations of %s never fired although %s such steps were generated; "
                 "escalating to the thorough bounds" % (dead, [INJECT[w]["steps"] for w in dead]))
        if not ctx.thorough and not getattr(ctx, "in_search", False):
            ctx.escalated = True
            search(ctx)
    if MISSING_SLOTS:
        ctx.note("private attributes the implementation does not have (read only when present; the public accessors judge): %s"
                 % sorted(MISSING_SLOTS))
    ctx.note("dict mutators found in dir(dict) at run time: %s" % sorted({m[0] for m in muts_all}))
    gcs = guard_cases(muts_all)
    ctx.exhaustive.append("guards: f[0]='x', f[0:1]='x', del f[0], c.atts={}, c.s='x' and %d (method, args) mutators x 3 values x memo "
                          "filled/unfilled = %d cases" % (len(muts_all), len(gcs)))
    for c in gcs:
        w = guard_oracle(c)
        ctx.count(c, nontrivial=True, tag="guard:" + (c.get("name") or c["g"]))
        if w:
            ctx.violation(w, c, footprint(c, w))


def search(ctx):
    if ctx.thorough:
        return
    ctx.thorough = True
    cases, oracle_cases, muts_all = mk_cases(ctx, nprog=4000)
    for c in cases + oracle_cases:
        _, findings, _ = run_program(c)
        ctx.count(dict(steps=c["steps"]), tag="search")
        for what, d in findings[:3]:
            ctx.violation(what, dict(kind=c["kind"], steps=c["steps"]), footprint(d, what) if d else None)
        if len(ctx.violations) > 50:
            return


def replay(payload):
    c = payload["case"]
    if c.get("kind") == "guard":
        return dict(case=c, oracle=guard_oracle(c))
    reply, findings, _ = run_program(c)
    line = make_line(c)
    model = lib.run_driver([line])[0]
    return dict(case=c, line=line, agree=canon(reply) == canon(model), findings=[w for w, _ in findings],
                implementation=reply, model=model)
