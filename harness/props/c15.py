"""C15 - str methods on a FmtStr agree with str on its text."""
import itertools
import re
from curtsies.formatstring import FmtStr
import wire
from wire import mk_fmt, cells
from props.common import reply_fmt, reply_fmt_list, guarded, canon_cells, canon_cells_list

PROP = "C15"
MODULES = ["Curtsies.Properties.C15"]
RULE = ("every text of a 18-text pool (incl. combining / zero-width characters) x 13 run layouts (one run plain/formatted, shared fg, shared bg, non-shared bg, empty "
        "middle / leading / trailing run, one run per character with True/False styles, three runs sharing bg) x every "
        "method of a curated list of 46 str methods with an argument pool generated from the text (separators present, "
        "absent, adjacent, at the ends, multi-character, overlapping; regexes; widths below/at/above the length; fill "
        "characters; keepends False/True; prefixes/suffixes/substrings). For delegated methods the real str result is "
        "handed to the model as the value of the uninterpreted method. Every FmtStr operand (receiver, join items incl. the "
        "receiver itself and reused items) is snapshotted (runs, .s, len, str) before the call and compared after it and "
        "after a second identical call, whose answer must equal the first. non-trivial = distinct (layout, method, args) on "
        "a string with at least one character")
ASSUMPTIONS = ["texts contain no ESC; a RESULT text containing ESC '[' (replace with such a replacement, an ESC fill character "
               "before '[') is re-parsed by fmtstr: open finding D27, footprint = the re-wrapped str result contains ESC '['",
               "reading of 'other text results carry the formatting shared by all characters' for ljust/rjust without "
               "fill character, checked EXACTLY: sh = entries common to all characters; if sh has a bg, the original "
               "characters are unchanged and the padding carries {bg} only (NOT the other shared attributes); otherwise "
               "every original character loses its (non-shared) bg and the padding carries exactly sh. The clause is met "
               "with equality only in the no-shared-bg branch; no result shows formatting no character had",
               "split is called with an explicit separator ('' included: ValueError like str) or a regex (capture groups are "
               "ignored as documented: pieces = text between the matches of the whole pattern; = re.split when there are no "
               "groups; empty matches, back-references, inline flags included), without maxsplit (the statement names explicit separators and regexes). Outside it "
               "and not checked: split() with sep=None on a text with leading/trailing whitespace keeps empty end pieces "
               "(judged against str.split() only on texts without leading/trailing whitespace), maxsplit raises "
               "NotImplementedError",
               "fill characters are one-character strs, widths are ints (anything else is str's own TypeError)",
               "a regex is matched by CPython's re: the model receives the match spans",
               "for an original without any character 'formatting shared by all characters' is vacuous; results may then "
               "carry only attributes present on some run of the original",
               "which characters are line boundaries is CPython's str.splitlines: the model receives that set"]
LEVEL_NOTE = ("PROVED in Lean for all inputs of the model: split on any span list and on an explicit separator (texts = "
              "Spec.strSplit, pieces = slices of f; '' raises ValueError), splitlines (texts = Spec.strSplitlines, piece i = "
              "slice at the explicit span of line i), join (C06), ljust/rjust (exact attributes of characters and padding, "
              "text = padded text), fill-character variants and the generic delegation theorem (result carries EXACTLY the "
              "formatting shared by all characters; bytes / non-text answers / exceptions pass through), fmtstr(text, **dict) "
              "= Chunk(text, dict) via the parse_args soundness theorem; ljust/rjust without fill never fail on a FmtStr with "
              ">= 1 run (C15_just_total). READING of 'carry the formatting shared by all characters' for ljust/rjust without "
              "fill character, with sh = sharedAtts f (exactly the entries common to all characters): with a shared bg the "
              "characters are unchanged and the padding carries {bg} ONLY - it drops the other shared attributes; without a "
              "shared bg every character loses its own (non-shared) bg and the padding carries exactly sh. Shown: (padOf sh) <= "
              "sh, sh <= keepOf sh a <= a (C15_just_bounds), exact forms in C15_ljust / C15_rjust. PARTIAL: delegated str methods are uninterpreted "
              "functions (that `m` is CPython's str.upper etc. is not a Lean fact - the correspondence hands the real str "
              "result to the model); regex matching enters as a span list; the str specs (split, splitlines, ljust/rjust) "
              "are hand-written and tied to CPython's str directly every run (exhaustive small strings) and through the method "
              "correspondence; result texts containing ESC '[' "
              "are excluded by hypothesis (open finding D27, witness theorem C15_delegate_witness). Trusted: Lean kernel + "
              "propext/Classical.choice/Quot.sound, the hand-written model and specs, extract.py, the wire codec")

R, B, U = {"fg": 31}, {"bg": 44}, {"underline": True}


def layouts_for(t):
    n = len(t)
    m = n // 2
    out = [
        [(t, {})],
        [(t, dict(R))],
        [(t, {"bg": 44, "underline": True})],
        [(t[:1], dict(R)), (t[1:], {"fg": 31, "bold": True})],
        [(t[:m], dict(B)), (t[m:], {"bg": 44, "fg": 32})],
        [(t[:m], {"bg": 41}), (t[m:], {})],
        [(t[:m], dict(R)), ("", {"bold": True}), (t[m:], dict(R))],
        [("", {}), (t, dict(R))],
        [(t, dict(R)), ("", dict(R))],
        [(ch, {"fg": 31, "bold": i % 2 == 0}) for i, ch in enumerate(t)] or [("", {"fg": 31})],
        [(t[:1], {"bg": 44, "underline": True}), (t[1:m + 1], dict(B)), (t[m + 1:], {"bg": 44, "fg": 37, "invert": True})],
        [("", {"bg": 41}), (t[:m], {"bg": 41, "italic": True}), (t[m:], {"bg": 41, "italic": False})],
        # one run per character, cycling three dicts that share only bg: a run of one zero-width character counts
        [(ch, [{"fg": 31, "bg": 44}, {"fg": 34, "bg": 44}, {"bg": 44, "underline": True}][i % 3]) for i, ch in enumerate(t)]
        or [("", {"bg": 44})],
    ]
    return out


TEXTS = ["a,b,,c", ",a,", "ab", "", "a b  c", "l1\nl2\r\nl3\rl4\n", "x\n", "\n\nx", "Hello World", "  pad  ", "aXbXXc", "tab\there",
         "ab\x0bc\x0cd\x1ce\x85f g h\x1di\x1ej", "aaa", "漢字 x", "\r\n\r", "e\u0301\u200bx", "\u0301a",
         # the 8-bit CSI and a lone ESC are ordinary characters of a text (only ESC '[' is the open finding D27)
         "x\x9b4my ", " a\x1bb\x9b", "\x9b31m",
         # whitespace as str.split() understands it: NBSP, NEL, LS/PS, ideographic and em space, the separators 1C-1F
         "a\xa0b\x85c d", "a\u2028b\u2029c\u3000d", "a\u2003b\x1cc\x1dd\x1ee\x1ff", "a \t\xa0 b\u2009c"]

STR_METHODS = ["upper", "lower", "capitalize", "title", "swapcase", "casefold", "strip", "lstrip", "rstrip", "center", "zfill",
               "replace", "expandtabs", "removeprefix", "removesuffix"]
LIST_METHODS = ["rsplit"]
BYTES_METHODS = ["encode"]
OTHER_METHODS = ["find", "rfind", "index", "rindex", "count", "startswith", "endswith", "isalpha", "isdigit", "isspace", "isupper",
                 "islower", "istitle", "isalnum", "isidentifier", "isprintable", "isascii", "isdecimal", "isnumeric", "partition",
                 "rpartition"]
NATIVE = ["split", "split_regex", "split_default", "splitlines", "ljust", "rjust", "join", "join_iter"]


def arg_pool(name, t):
    n = len(t)
    subs = sorted({t[:1], t[-1:], t[1:3], t[:2], ",", " ", "zz", "a", "X"} - {""})
    if name in ("upper", "lower", "capitalize", "title", "swapcase", "casefold", "isalpha", "isdigit", "isspace", "isupper", "islower",
                "istitle", "isalnum", "isidentifier", "isprintable", "isascii", "isdecimal", "isnumeric"):
        return [()]
    if name in ("strip", "lstrip", "rstrip"):
        return [(), (" ",), (t[:1] + ",",), ("zq",)]
    if name == "center":
        return [(w,) for w in (0, n - 1, n, n + 1, n + 4)] + [(n + 3, "."), (n + 2, "漢"), (n + 2, "\x9b")] + \
            ([(n + 2, "\x1b")] if not t.startswith("[") else [])
    if name == "encode":
        return [(), ("utf-8",), ("ascii", "replace")]
    if name == "zfill":
        return [(w,) for w in (0, n, n + 1, n + 3)]
    if name == "replace":
        esc = [("a", "\x1b[31mx\x1b[39m"), (subs[0], "\x1b[1m")] if len(t) in (2, 3) else []   # D27: rare
        return [(s, r) for s in subs[:5] for r in ("", "Q", "long ")] + [(subs[0], "Q", 1), (subs[0], "\x9b4m"), (subs[0], "\x1b")] + esc
    if name == "expandtabs":
        return [(), (4,)]
    if name in ("removeprefix", "removesuffix", "startswith", "endswith"):
        return [(s,) for s in subs[:6]] + [(t,), ("",)]
    if name in ("find", "rfind", "index", "rindex", "count"):
        return [(s,) for s in subs] + [(subs[0], 1), (subs[0], 1, n - 1)]
    if name in ("partition", "rpartition"):
        return [(s,) for s in subs[:6]]
    if name == "rsplit":
        return [(s,) for s in subs[:6]] + [(), (None, 1), (subs[0], 1)]
    if name == "split_default":
        # split() / split(None): whitespace runs as str.split() understands whitespace; only for texts without leading or
        # trailing whitespace (there FmtStr.split() keeps empty end pieces - outside the statement)
        return [(), (None,)] if t and not t[0].isspace() and not t[-1].isspace() else []
    if name == "join_iter":
        red = ["f", [["q", {"fg": 31}]]]
        return [(kind, items) for kind in ("gen", "iter", "map", "tuple", "dictkeys", "list")
                for items in (["a", "b"], ["x", "yz", ""], ["x", red, "y"], [])
                if not (kind == "dictkeys" and any(not isinstance(x, str) for x in items))]
    if name == "split":
        # '.', '[|]', 'a|b' are ALSO used as regexes below (same text, other mode): literal mode must not care
        seps = sorted({",", "X", " ", "aa", "a", ",,", "b,", "zz", "\n", "ab", "\r\n", ".", "[|]", "a|b", t, t[:1], t[-1:], t[1:3]} - {""})
        return [(s,) for s in seps] + [("",)]            # '' raises ValueError, as str.split('')
    if name == "split_regex":
        return [(p,) for p in (",", ",+", r"\s+", "[,X]", "a|b", r"\d", r"l\d", "X{2}", r"\n|\r", "a(?=a)", ".", "[|]", r"\.",
                                # capture groups (ignored: the WHOLE match splits), back-references, named groups, conditional
                                # groups, inline flags, look-ahead, empty matches
                                r"(.)\1", r"(a)(b)\2", r"(?i)A", r"(?P<x>a)(?P=x)", r"(a)|b", r"(?:a)(b)?", r"a(?=b)", r"\b",
                                r"(?m)^|$", r"(,)(?(1),|x)", r"(?i)(l)\d", r"([a-c])\1*")]
    if name == "splitlines":
        return [(), (False,), (True,)]
    if name in ("ljust", "rjust"):
        esc = [(n + 2, "\x1b")] if t.startswith("l1") else []                                    # D27: rare
        return [(w,) for w in (-1, 0, n - 1, n, n + 1, n + 3)] + [(w, c) for w in (n - 1, n, n + 2) for c in (".", " ", "漢")] + [(n + 2, "\x9b")] + esc
    if name == "join":
        red = ["f", [["q", {"fg": 31}]]]
        two = ["f", [["r", {"bold": True}], ["", {"bg": 44}], ["s", {}]]]
        return [([],), (["x"],), (["x", "yz", ""],), ([red],), (["x", red, two],), ([two, "", red, "y"],), ([["f", []], red],),
                (["self", "self", "self"],), ([red, "x", red],), ([two, two],), (["self", red],), ([red, "self", red, "self"],)]
    raise KeyError(name)


SPLIT_SEQS = [   # (text, [(separator, regex?) ...]): ONE separator text used as a literal and as a regex, both orders
    ("aq.bqqc.q", [["q.", False], ["q.", True], ["q.", False]]),
    ("a[q|]b|cqd", [["[q|]", True], ["[q|]", False], ["[q|]", True]]),
    ("x+y++z", [["+", False], ["\\+", True], ["\\+", False], ["y+", True], ["y+", False]]),
    ("1*2**3", [["2*", True], ["2*", False], ["*", False]]),
]


def mk_cases(ctx):
    cases = []
    # maxsplit is a documented parameter the code refuses: either NotImplementedError or exactly str.split(sep, maxsplit)
    for t in ("a,b,,c", ",a,", "ab", ""):
        for f in layouts_for(t)[:4]:
            for sep in (",", "b"):
                for mx in (0, -1, 1, 2):
                    cases.append(dict(m="split_max", args=[sep, mx], f=f, lay=-2))
    for t, steps in SPLIT_SEQS:
        for f in layouts_for(t)[:5]:
            cases.append(dict(m="split_seq", args=[], steps=steps, f=f, lay=-1))
    texts = TEXTS + ["a.b|c", "x[|]y|z.", "a|b.a"]
    for t in texts:
        lays = layouts_for(t)
        for name in NATIVE + STR_METHODS + LIST_METHODS + BYTES_METHODS + OTHER_METHODS:
            for args in arg_pool(name, t):
                for li, f in enumerate(lays):
                    if not ctx.thorough and name not in NATIVE and li in (2, 8, 10) and len(t) > 4:
                        continue
                    if name == "join_iter" and li >= 4 and not ctx.thorough:
                        continue
                    if not ctx.thorough and "\u2003" in t + "\u2003" and any(ch in t for ch in "\xa0\u2028\u2003\u2009") \
                            and name not in ("split_default", "split", "rsplit", "strip", "splitlines", "ljust", "center", "upper"):
                        continue
                    cases.append(dict(m=name, args=list(args), f=f, lay=li))
    # the Lean witness of the open finding D27 (C15_delegate_witness), replayed on the real code every run
    cases.append(dict(m="replace", args=["a", "\x1b[31mx\x1b[39m"], f=[("a", {})], lay=0))
    ctx.exhaustive.append("%d texts x 13 layouts x %d methods x argument pool: %d cases" % (
        len(texts), len(NATIVE + STR_METHODS + LIST_METHODS + BYTES_METHODS + OTHER_METHODS), len(cases)))
    return cases


# ---- real code -----------------------------------------------------------------------------------------------

def build(c):
    """the receiver and the real argument tuple (FmtStr operands are built once, so that they can be looked at
    after the call)"""
    f = mk_fmt(c["f"])
    name, args = c["m"], c["args"]
    if name == "join":
        cache = {}
        return f, [[join_item(x, f, cache) for x in args[0]]]
    if name == "join_iter":
        cache = {}
        return f, [args[0], [join_item(x, f, cache) for x in args[1]]]
    return f, list(args)


def one_shot(kind, items):
    """the iterable handed to join: built afresh for every call"""
    if kind == "gen":
        return (x for x in items)
    if kind == "iter":
        return iter(list(items))
    if kind == "map":
        return map(lambda x: x, items)
    if kind == "tuple":
        return tuple(items)
    if kind == "dictkeys":
        return dict.fromkeys(items).keys()
    return list(items)


def do_call(f, name, args):
    if name == "split_regex":
        return f.split(args[0], regex=True)
    if name == "split_default":
        return f.split(*args)
    if name == "join_iter":
        return f.join(one_shot(args[0], args[1]))
    return getattr(f, name)(*args)


def call_real(c):
    f, args = build(c)
    return do_call(f, c["m"], args)


def snapshot(x):
    return (wire.fmt_chunks(x), x.s, len(x), str(x))


def operands(f, args):
    out = [f]
    for a in args:
        for x in (a if isinstance(a, list) else [a]):
            if isinstance(x, FmtStr) and not any(x is y for y in out):
                out.append(x)
    return out


def observed(r):
    if isinstance(r, FmtStr):
        return ("fmt",) + snapshot(r)
    if isinstance(r, list):
        return ("list", [observed(x) for x in r])
    return ("val", type(r).__name__, r)


def join_item(x, f=None, cache=None):
    """'self' is the receiver object itself; equal FmtStr items of one call are ONE object (reuse / aliasing)"""
    if x == "self":
        return f
    if isinstance(x, str):
        return x
    key = repr(x)
    if cache is not None and key in cache:
        return cache[key]
    r = mk_fmt([tuple(ch) for ch in x[1]])
    if cache is not None:
        cache[key] = r
    return r


def join_item_chunks(x, fchunks=None):
    if x == "self":
        return [tuple(ch) for ch in fchunks]
    return [(x, {})] if isinstance(x, str) else [tuple(ch) for ch in x[1]]


def call_str(c):
    """the same method on the plain text"""
    s = "".join(t for t, _ in c["f"])
    name, args = c["m"], c["args"]
    if name == "split_regex":
        # documented: "Capture groups are ignored in regex, the whole pattern is matched and used to split" - the pieces
        # are the text between consecutive matches of the whole pattern; without groups that is re.split
        out, pos = [], 0
        for m in re.finditer(args[0], s):
            out.append(s[pos:m.start()])
            pos = m.end()
        out.append(s[pos:])
        if re.compile(args[0]).groups == 0 and out != re.split(args[0], s):
            raise AssertionError("harness: complement of the matches differs from re.split for %r on %r" % (args[0], s))
        return out
    if name == "join":
        return s.join("".join(t for t, _ in join_item_chunks(x, c["f"])) for x in args[0])
    if name == "join_iter":
        return s.join(one_shot(args[0], ["".join(t for t, _ in join_item_chunks(x, c["f"])) for x in args[1]]))
    if name == "split_default":
        return s.split(*args)
    return getattr(s, name)(*args)


def enc_result(r):
    if isinstance(r, FmtStr):
        return reply_fmt(r)
    if isinstance(r, list) and all(isinstance(x, FmtStr) for x in r):
        return reply_fmt_list(r)
    if isinstance(r, bytes):
        return "ok bytes " + ",".join(str(b) for b in r)
    return "ok other"


def impl(c):
    try:
        return guarded(lambda: enc_result(call_real(c)))
    except wire.Unencodable as e:
        return "unencodable:" + repr(e)
    except Exception as e:  # noqa: BLE001 - observing the result failed
        return "unobservable:%s:%s" % (type(e).__name__, e)


def breaks_of(s):
    return "".join(sorted({ch for ch in s if len(("a" + ch + "b").splitlines()) == 2}))


def line(c):
    name, args = c["m"], c["args"]
    fe = wire.enc_chunks(c["f"])
    s = "".join(t for t, _ in c["f"])
    if name == "split":
        return "splitsep %s %s" % (fe, wire.enc_tf(args[0]))
    if name == "split_regex":
        spans = ",".join("%d-%d" % m.span() for m in re.finditer(args[0], s)) or "-"
        return "splitspans %s %s" % (fe, spans)
    if name == "splitlines":
        return "splitlines %s %d %s" % (fe, 1 if (args and args[0]) else 0, wire.enc_tf(breaks_of(s)))
    if name in ("ljust", "rjust"):
        return "%s %s %d %s" % (name, fe, args[0], wire.enc_text(args[1]) if len(args) > 1 else "N")
    if name == "join":
        return " ".join(["join", fe] + [wire.enc_chunks(join_item_chunks(x, c["f"])) for x in args[0]])
    if name == "join_iter":
        return " ".join(["join", fe] + [wire.enc_chunks(join_item_chunks(x, c["f"])) for x in args[1]])
    if name == "split_default":
        return "splitspans %s %s" % (fe, ",".join("%d-%d" % sp for sp in ws_spans(s)) or "-")
    # delegated: the real str result is the value of the uninterpreted method
    try:
        r = call_str(c)
    except Exception as e:  # noqa: BLE001
        return "delegate %s raise %s" % (fe, wire.exc_kind(e)[2:])
    if isinstance(r, str):
        return "delegate %s str %s" % (fe, wire.enc_tf(r))
    if isinstance(r, list):
        return "delegate %s list %s" % (fe, ";".join(wire.enc_tf(x) for x in r) or "-")
    if isinstance(r, bytes):
        return "delegate %s bytes %s" % (fe, ",".join(str(b) for b in r) or "e")
    return "delegate %s other x" % fe


def ws_spans(s):
    """maximal runs of characters str.isspace() calls whitespace (what str.split() splits at)"""
    out, i = [], 0
    while i < len(s):
        if s[i].isspace():
            j = i
            while j < len(s) and s[j].isspace():
                j += 1
            out.append((i, j))
            i = j
        else:
            i += 1
    return out


def canon(reply):
    if reply.startswith("ok ["):
        return canon_cells_list(reply)
    if reply == "ok other" or reply.startswith("ok bytes"):
        return reply.rstrip()
    return canon_cells(reply)


# ---- the property ------------------------------------------------------------------------------------------

def char_atts(chunks):
    return [dict(a) for t, a in chunks for _ in t]


def common_entries(dicts):
    """attribute entries every character has"""
    if not dicts:
        return {}
    out = dict(dicts[0])
    for d in dicts[1:]:
        out = {k: v for k, v in out.items() if k in d and d[k] == v}
    return out


def sub(a, b):
    return all(k in b and b[k] == v for k, v in a.items())


def check_uniform(r, c, what):
    """a text result other than a split piece: exactly the formatting shared by all characters of the original"""
    orig = char_atts(c["f"])
    res = char_atts(wire.fmt_chunks(r))
    if orig:
        sh = common_entries(orig)
        for a in res:
            if a != sh:
                return "%s: a result character has %r, the formatting shared by all characters of the original is %r" % (what, a, sh)
    else:
        run_atts = [a for _, a in c["f"]]
        for a in res:
            if not any(sub({k: v}, ra) for k, v in a.items() for ra in run_atts) and a:
                return "%s: result shows %r which no run of the (character-less) original had" % (what, a)
    return None


def _oracle(c):
    if c["m"] == "split_max":
        f = mk_fmt(c["f"])
        s0 = "".join(t for t, _ in c["f"])
        try:
            r = f.split(c["args"][0], c["args"][1])
        except NotImplementedError:
            return None
        exp = s0.split(c["args"][0], c["args"][1])
        got = [x.s for x in r] if isinstance(r, list) and all(isinstance(x, FmtStr) for x in r) else r
        if got != exp:
            return "split%r: texts %r, str gives %r (or NotImplementedError)" % (tuple(c["args"]), got, exp)
        return None
    if c["m"] == "split_seq":
        # history: the answer of split(sep) / split(sep, regex=True) must not depend on what was split before
        for i, (sep, rx) in enumerate(c["steps"]):
            w = _oracle(dict(m="split_regex" if rx else "split", args=[sep], f=c["f"], lay=c["lay"]))
            if w:
                return "step %d of %r: %s" % (i, c["steps"], w)
        return None
    name, args = c["m"], c["args"]
    s = "".join(t for t, _ in c["f"])
    cs = wire.cells_of_chunks(c["f"])
    try:
        exp = call_str(c)
        exp_exc = None
    except Exception as e:  # noqa: BLE001
        exp, exp_exc = None, e
    # FmtStr values are immutable: no operand (receiver, separator, items) may look different after the call, and
    # the same call made again must give the same answer
    f, rargs = build(c)
    ops = operands(f, rargs)
    before = [snapshot(x) for x in ops]

    def untouched(when):
        for i, x in enumerate(ops):
            if snapshot(x) != before[i]:
                return "%s%r changed operand %d %s: %r -> %r" % (name, tuple(args), i, when, before[i][0], snapshot(x)[0])
        return None
    try:
        r = do_call(f, name, rargs)
    except Exception as e:  # noqa: BLE001
        w = untouched("(call raised)")
        if w:
            return w
        if exp_exc is not None and type(e) is type(exp_exc):
            return None
        return "%s%r raised %s: %s (str gives %r)" % (name, tuple(args), type(e).__name__, e, exp if exp_exc is None else type(exp_exc).__name__)
    w = untouched("after the call")
    if w:
        return w
    first = observed(r)
    try:                                      # a caller scribbling on the dict shared_atts handed out must not matter
        d = f.shared_atts
        d["blink"] = True
        d.pop("fg", None)
        d.pop("bg", None)
    except Exception:  # noqa: BLE001 - FmtStr() has none; an immutable mapping is fine too
        pass
    try:
        again = observed(do_call(f, name, rargs))
    except Exception as e:  # noqa: BLE001
        return "%s%r raised %s when called a second time" % (name, tuple(args), type(e).__name__)
    if again != first:
        return "%s%r called twice gives two answers: %r then %r" % (name, tuple(args), first, again)
    w = untouched("after a second call")
    if w:
        return w
    if exp_exc is not None:
        return "%s%r returned %r, str raises %s" % (name, tuple(args), r, type(exp_exc).__name__)
    if name in ("split", "split_regex", "split_default", "splitlines"):
        if not (isinstance(r, list) and all(isinstance(x, FmtStr) for x in r)):
            return "%s did not return a list of FmtStr" % name
        if [x.s for x in r] != exp:
            return "%s%r: texts %r, str gives %r" % (name, tuple(args), [x.s for x in r], exp)
        # each piece keeps each character's own formatting: locate the pieces in the original
        if name == "split":
            gaps = [len(args[0])] * (len(exp) - 1)
        elif name == "split_regex":
            gaps = [len(m.group(0)) for m in re.finditer(args[0], s)]
        elif name == "split_default":
            gaps = [b - a for a, b in ws_spans(s)]
        else:
            full = s.splitlines(True)
            gaps = [len(w) - len(p) for w, p in zip(full, exp)]
        pos = 0
        for i, piece in enumerate(r):
            want = cs[pos:pos + len(exp[i])]
            if cells(piece) != want:
                return "%s%r: piece %d has formatting %r, its characters had %r" % (name, tuple(args), i, cells(piece), want)
            pos += len(exp[i]) + (gaps[i] if i < len(gaps) else 0)
        return None
    if name in ("join", "join_iter"):
        want = []
        for i, x in enumerate(args[0] if name == "join" else args[1]):
            if i:
                want += cs
            want += wire.cells_of_chunks(join_item_chunks(x, c["f"]))
        if cells(r) != want or r.s != exp:
            return "join: got %r expected %r" % (cells(r), want)
        return None
    if name in ("ljust", "rjust"):
        if not isinstance(r, FmtStr) or r.s != exp:
            return "%s%r: text %r, str gives %r" % (name, tuple(args), getattr(r, "s", r), exp)
        if len(args) > 1:
            return check_uniform(r, c, name + " with fillchar")
        orig = char_atts(c["f"])
        res = char_atts(wire.fmt_chunks(r))
        sh = common_entries(orig)
        npad = len(res) - len(orig)
        keep = res[:len(orig)] if name == "ljust" else res[npad:]
        pad = res[len(orig):] if name == "ljust" else res[:npad]
        if orig:
            # exactly what the statement's reading allows (see ASSUMPTIONS): with a shared bg the characters are
            # untouched and the padding carries that bg only; otherwise a (non-shared) bg is dropped from the
            # characters and the padding carries exactly the shared formatting
            if "bg" in sh:
                want_keep, want_pad = orig, {"bg": sh["bg"]}
            else:
                want_keep, want_pad = [{k: v for k, v in o.items() if k != "bg"} for o in orig], sh
            if keep != want_keep:
                return "%s: original characters have %r, expected %r" % (name, keep, want_keep)
            for a in pad:
                if a != want_pad:
                    return "%s: padding has %r, expected exactly %r" % (name, a, want_pad)
        for a, o in zip(keep, orig):
            if not sub(sh, a):
                return "%s: an original character lost formatting shared by all characters: has %r, shared %r" % (name, a, sh)
            if not sub(a, o):
                return "%s: an original character shows %r, it had %r" % (name, a, o)
        for a in pad:
            if orig and not sub(a, sh):
                return "%s: padding shows %r, shared by all characters is %r" % (name, a, sh)
            if not orig and a and not any(sub(a, ra) for _, ra in c["f"]):
                return "%s: padding shows %r which no run of the original had" % (name, a)
        return None
    # delegated
    if isinstance(exp, str):
        if not isinstance(r, FmtStr) or r.s != exp:
            return "%s%r: text %r, str gives %r" % (name, tuple(args), getattr(r, "s", r), exp)
        return check_uniform(r, c, name)
    if isinstance(exp, list):
        if not (isinstance(r, list) and all(isinstance(x, FmtStr) for x in r)) or [x.s for x in r] != exp:
            return "%s%r: %r, str gives %r" % (name, tuple(args), r, exp)
        for x in r:
            w = check_uniform(x, c, name)
            if w:
                return w
        return None
    if type(r) is not type(exp) or r != exp or isinstance(r, FmtStr):
        return "%s%r: answer %r, str gives %r" % (name, tuple(args), r, exp)
    return None


def oracle(c):
    """any exception while observing a result (.s, len, iteration, attributes) is a violation, never a crash"""
    try:
        return _oracle(c)
    except Exception as e:  # noqa: BLE001
        return "observing the result raised %s: %s" % (type(e).__name__, e)


D27_MODEL = {}   # request line -> reply of the Lean model (its own escape parser `fromStr`, not the tree's fmtstr)


def d27_shaped(c):
    if c["m"] in ("split_seq", "split_max"):
        return False
    return _d27_shaped(c)


def _d27_shaped(c):
    """the re-wrapped str result (or an element of a list result / the fill-padded text) contains ESC '['"""
    if c["m"] in NATIVE and not (c["m"] in ("ljust", "rjust") and len(c["args"]) > 1):
        return False
    try:
        exp = call_str(c)
    except Exception:  # noqa: BLE001
        return False
    texts = [exp] if isinstance(exp, str) else (exp if isinstance(exp, list) else [])
    return any(isinstance(x, str) and "\x1b[" in x for x in texts)


def consistent(x):
    """a FmtStr whose .s / len / str() are those of its own runs"""
    ch = wire.fmt_chunks(x)
    return x.s == "".join(t for t, _ in ch) and len(x) == len(x.s) and str(x) == str(mk_fmt(ch))


def footprint(c, what):
    """D27 (open): fmtstr(str) parses the escape sequences of a plain str - here the text a str method returned.
    Attributed ONLY when everything the real code does is what D27 explains: the result equals the Lean model's
    answer for the same request (the str result parsed by the model's own escape parser, re-wrapped with the shared
    attributes), it is internally consistent, a second call gives the same answer, no operand changed, nothing raised.
    Any other deviation on such an input is an unlisted violation."""
    if not d27_shaped(c):
        return None
    reply = D27_MODEL.get(line(c))
    if reply is None or not reply.startswith("ok"):
        return None
    try:
        f, rargs = build(c)
        ops = operands(f, rargs)
        before = [snapshot(x) for x in ops]
        r = do_call(f, c["m"], rargs)
        if canon(enc_result(r)) != canon(reply):
            return None
        parts = r if isinstance(r, list) else [r]
        if not all(isinstance(x, FmtStr) and consistent(x) for x in parts):
            return None
        if observed(do_call(f, c["m"], rargs)) != observed(r):
            return None
        if [snapshot(x) for x in ops] != before:
            return None
        return "D27"
    except Exception:  # noqa: BLE001
        return None


# ---- the hand-written str specifications (lean/Curtsies/Spec/StrMethods.lean) against CPython, directly -------------

def enc_te(t):
    return wire.enc_text(t) or "e"


def spec_cases(ctx):
    import itertools as it
    out = []
    n = 6 if ctx.thorough else 5
    strs = ["".join(p) for k in range(n + 1) for p in it.product("ab,", repeat=k)]
    for t in strs:
        for sep in (",", "a", "ab", ",,", "aa", "b,a", "aba"):
            out.append(dict(spec="split", t=t, sep=sep))
    lines = ["".join(p) for k in range(n + 1) for p in it.product("a\n\r\x85", repeat=k)]
    for t in lines:
        for keep in (False, True):
            out.append(dict(spec="splitlines", t=t, keep=keep))
    for t in ["".join(p) for k in range(4) for p in it.product("a ", repeat=k)]:
        for w in range(-1, 6):
            for fill in (" ", ".", "漢"):
                out.append(dict(spec="ljust", t=t, w=w, fill=fill))
                out.append(dict(spec="rjust", t=t, w=w, fill=fill))
    return out


def spec_line(c):
    k = c["spec"]
    if k == "split":
        return "specsplit %s %s" % (enc_te(c["sep"]), enc_te(c["t"]))
    if k == "splitlines":
        return "specsplitlines %d %s %s" % (1 if c["keep"] else 0, enc_te(breaks_of(c["t"])), enc_te(c["t"]))
    return "spec%s %s %d %s" % (k, enc_te(c["t"]), c["w"], enc_te(c["fill"]))


def spec_impl(c):
    k = c["spec"]
    if k == "split":
        r = c["t"].split(c["sep"])
    elif k == "splitlines":
        r = c["t"].splitlines(c["keep"])
    elif k == "ljust":
        return "ok " + enc_te(c["t"].ljust(c["w"], c["fill"]))
    else:
        return "ok " + enc_te(c["t"].rjust(c["w"], c["fill"]))
    return "ok [" + " ".join(enc_te(x) for x in r) + "]"


def check(ctx):
    cases = mk_cases(ctx)
    d27 = [c for c in cases if c["m"] not in ("split_seq", "split_max") and d27_shaped(c)]
    try:
        import lib
        for c, rep in zip(d27, lib.run_driver([line(c) for c in d27])):
            D27_MODEL[line(c)] = rep
    except Exception as e:  # noqa: BLE001 - without the model nothing is attributed to D27
        ctx.note("D27 expectations unavailable: %r" % (e,))
    ctx.tie("C15/methods", [c for c in cases if c["m"] not in ("split_seq", "split_max")], line, impl, canon, canon)
    sc = spec_cases(ctx)
    ctx.tie("C15/str-specs-vs-CPython", sc, spec_line, spec_impl)
    ctx.exhaustive.append("Spec.strSplit / strSplitlines / pyLjust / pyRjust against CPython str on all strings over small "
                          "alphabets up to length %d: %d cases" % (6 if ctx.thorough else 5, len(sc)))
    for c in cases:
        w = oracle(c)
        ctx.count(c, nontrivial=any(t for t, _ in c["f"]), tag=c["m"])
        if w:
            ctx.violation(w, c, footprint(c, w))


def search(ctx):
    if ctx.thorough:
        return
    ctx.thorough = True
    for c in mk_cases(ctx):
        w = oracle(c)
        ctx.count(c, tag="search")
        if w:
            ctx.violation(w, c, footprint(c, w))
            if len(ctx.violations) > 50:
                return


def replay(payload):
    c = payload["case"]
    if c["m"] in ("split_seq", "split_max"):
        return dict(case=c, oracle=oracle(c))
    return dict(case=c, implementation=impl(c), model_request=line(c), oracle=oracle(c))
