"""C09 - splice replaces exactly the requested range and nothing else (splice, append; operand unchanged)."""
import itertools
import wire
import sgrterm
from wire import mk_fmt, cells
from curtsies.formatstring import FmtStr, Chunk
from props.common import chunks_for, reply_fmt, guarded, canon_eff_cells, eff_cells, PALETTE

PROP = "C09"
MODULES = ["Curtsies.Properties.C09", "Curtsies.Properties.C09Setitem"]
RULE = ("exhaustive: every layout of 0..3 runs with run lengths 0..3 (distinct characters, run i formatted with palette "
        "entry i) x 9 `new` values (+3 plain strs containing SGR sequences on the layouts of <=4 characters) (empty str, fmtstr(''), FmtStr() without chunks, 1-char str, multi-char str with a "
        "space, 2-char one-run FmtStr, 2-run FmtStr, 3-run FmtStr with an empty middle run, FmtStr with explicit-False "
        "attribute) x every 0 <= start <= end <= len+2 and end omitted; append of every `new` to every layout; plus "
        "the sweep again over layouts whose runs REPEAT (equal text and attributes, also the same Chunk object twice, in f and in new); "
        "the exhaustive sweep again over runs made of double-width, zero-width, combining and control characters (\\n, \\t); "
        "seeded random cases with up to 6 runs of length 0..5 and random multi-run `new`. non-trivial = distinct "
        "(f, new, start, end) where something is inserted or a non-empty range is deleted")
ASSUMPTIONS = ["0 <= start <= end (the property's range); negative offsets and end < start are outside the statement "
               "(for end < start the code's negative slice index wraps; the driver answers bad-op there)",
               "plain str operands containing ESC '[' are IN the domain: the property says a str's characters come out "
               "unformatted; the code parses them (open finding D27) - the theorems carry Operand.EscFree"]
LEVEL_NOTE = ("C09_splice/insert/append: full strength for FmtStr operands; for plain-str operands C09_*_operand_partial "
              "(hypothesis: no ESC '[' in the str) - the full statement C09_full_statement is refuted by C09_D27_witness "
              "(open finding D27). trusted: Lean kernel + propext/Classical.choice/Quot.sound, the hand-written models "
              "(FmtStr core, escape parser, Operand), extract.py, the wire codec; CPython is modelled not verified. Ties: property level = per-character cells of the result (C09/splice, in-statement cases); representation level = the exact runs and the out-of-statement setitem cases (C09/splice-runs). \"f itself is unchanged\" is judged on public views only (str, .s, repr, cells, len, width); run-object identity is a note.")

NEWS = [
    ("s", ""),
    ("f", [("", {})]),
    ("f", []),
    ("s", "X"),
    ("s", "x y"),
    ("f", [("XY", {"fg": 35})]),
    ("f", [("X", {"bg": 46}), ("Y", {})]),
    ("f", [("X", {"fg": 33}), ("", {"bold": True}), ("YZ", {"underline": True})]),
    ("f", [("W", {"bold": False, "fg": 31})]),
]
# plain str operands containing a complete SGR sequence (finding D27): str(red('X')), a bare sequence, a reset inside
ESC_NEWS = [("s", "\x1b[31mX\x1b[39m"), ("s", "\x1b[31m"), ("s", "a\x1b[0mb")]


WIDE = "\uff25\u0301\n\uff48\u200b\t\uff49\u754cx"


# runs that REPEAT inside one string: equal text and attributes at different offsets (what `f * 2` and `sep.join(...)`
# produce - there even the same Chunk OBJECT twice): run boundaries must be located by position, not by equality
RUN_A, RUN_B, RUN_E, RUN_C = ("ab", {"fg": 34}), ("-", {"fg": 31}), ("", {}), ("ab", {})
REPEATED = [list(t) for n in (2, 3) for t in itertools.product((RUN_A, RUN_B, RUN_E), repeat=n)] + [
    [RUN_A, RUN_B, RUN_A, RUN_B], [RUN_A, RUN_A, RUN_B, RUN_A], [RUN_A, RUN_B, RUN_E, RUN_A], [RUN_B, RUN_A, RUN_B, RUN_A],
    [RUN_C, RUN_A, RUN_C, RUN_A], [RUN_E, RUN_A, RUN_E, RUN_A], [RUN_A, RUN_A, RUN_A, RUN_A]]


def build(chunks, share):
    """the real FmtStr; share=True: equal runs are ONE Chunk object used several times (as `f * n` and join build them)"""
    if not share:
        return mk_fmt(chunks)
    pool = {}
    objs = []
    for t, a in chunks:
        k = (t, tuple(sorted(a.items())))
        if k not in pool:
            pool[k] = Chunk(t, dict(a))
        objs.append(pool[k])
    return FmtStr(*objs)


def mk_f(c):
    return build(c["f"], c.get("share", False))


def all_layouts():
    for n in range(0, 4):
        for lens in itertools.product(range(0, 4), repeat=n):
            yield lens


def new_chunks(new):
    """the FmtStr the library converts `new` to: a FmtStr as is, an ESC-free str as one unformatted run"""
    k, v = new
    return [(v, {})] if k == "s" else v


def mk_cases(ctx):
    cases = []
    for lens in all_layouts():
        ch = chunks_for(lens)
        n = sum(lens)
        for new in NEWS + (ESC_NEWS if n <= 4 else []):
            for start in range(0, n + 3):
                cases.append(dict(op="splice", f=ch, new=new, start=start, end=None))
                for end in range(start, n + 3):
                    cases.append(dict(op="splice", f=ch, new=new, start=start, end=end))
            cases.append(dict(op="append", f=ch, new=new))
        # FmtStr.setitem(start, x) - the shim over setslice_with_length (an anchor of C09)
        if max(lens + (0,)) <= 2:
            for new in (("s", "X"), ("f", [("Y", {"fg": 35})]), ("s", ""), ("s", "XY"), ("f", [("P", {}), ("Q", {"bold": True})]), ("f", []),
                        ("s", "\x1b[31mX\x1b[39m")):
                for start in range(0, n + 3):
                    cases.append(dict(op="setitem", f=ch, new=new, start=start))
    ctx.exhaustive.append("splice/append over all layouts of <=3 runs of lengths 0..3 x %d new values x all "
                          "0<=start<=end<=len+2 and end omitted: %d cases" % (len(NEWS), len(cases)))
    n2 = 0
    for ch in REPEATED:
        n = sum(len(t) for t, _ in ch)
        for share in ((False, True) if len(ch) <= 3 else (True,)):
            for new in (("s", "X"), ("s", ""), ("f", [RUN_A, RUN_A]), ("f", [RUN_B, RUN_A, RUN_B])):
                for start in range(0, n + 3):
                    cases.append(dict(op="splice", f=ch, new=new, start=start, end=None, share=share))
                    for end in range(start, n + 3):
                        cases.append(dict(op="splice", f=ch, new=new, start=start, end=end, share=share))
                        n2 += 1
                cases.append(dict(op="append", f=ch, new=new, share=share))
                for start in range(0, n + 1):
                    cases.append(dict(op="setitem", f=ch, new=("s", "X"), start=start, share=share))
    ctx.exhaustive.append("the same over %d layouts with REPEATED equal runs (equal text and attributes at different offsets, "
                          "also as one shared Chunk object) x 4 new values (two with repeated runs): %d splice cases" % (len(REPEATED), n2))
    # runs containing double-width (U+FF25, U+FF48, U+FF49, U+754C), zero-width (U+0301, U+200B) and control characters
    # (\n, \t): splice works on CHARACTER offsets - column widths (Chunk.width, which even raises for \n / \t) must
    # play no role in locating start/end
    n1 = 0
    for lens in all_layouts():
        if max(lens + (0,)) > 2:
            continue
        ch = chunks_for(lens, alphabet=WIDE)
        n = sum(lens)
        for new in (("s", "X"), ("s", ""), ("f", [("\uff38", {"bg": 46}), ("Y", {})]), ("s", "\u0301\n")):
            for start in range(0, n + 3):
                cases.append(dict(op="splice", f=ch, new=new, start=start, end=None))
                for end in range(start, n + 3):
                    cases.append(dict(op="splice", f=ch, new=new, start=start, end=end))
                    n1 += 1
            cases.append(dict(op="append", f=ch, new=new))
    ctx.exhaustive.append("the same over layouts of <=3 runs of lengths 0..2 drawn from double-width / combining / zero-width / "
                          "control characters x 4 new values: %d splice cases" % n1)
    r = ctx.rng
    alpha = "abcdefghijklmnopqrstuvwxyzABCDEFGHIJKLMNOPQRSTUVWXYZ0123456789"
    for _ in range(20000 if ctx.thorough else 3000):
        lens = tuple(r.randint(0, 5) for _ in range(r.randint(0, 6)))
        ch = chunks_for(lens, alphabet=(WIDE * 4 if r.random() < 0.15 else alpha), shift=r.randint(0, 6))
        if ch and r.random() < 0.15:
            ch = [r.choice(ch[:2]) for _ in range(r.randint(2, 5))]      # a few runs repeated at random positions
        n = sum(len(t) for t, _ in ch)
        q = r.random()
        if q < 0.04:
            new = ("s", r.choice(["\x1b[31mX\x1b[39m", "\x1b[1m", "p\x1b[44mq\x1b[49m", "\x1b[0m\x1b[32myz", "ab\x1b[", "\x1b[5;31mK"]))
        elif q < 0.3:
            new = ("s", "".join(r.choice("xyz \t\n") for _ in range(r.randint(0, 4))))
        else:
            nl = tuple(r.randint(0, 3) for _ in range(r.randint(0, 3)))
            new = ("f", chunks_for(nl, alphabet="ZYXWVUTSRQPONM", shift=r.randint(0, 6)))
        start = r.randint(0, n + 2)
        end = r.choice([None] + list(range(start, n + 3)))
        if r.random() < 0.1:
            cases.append(dict(op="append", f=ch, new=new))
        else:
            cases.append(dict(op="splice", f=ch, new=new, start=start, end=end))
    return cases


def enc_operand(new):
    """a plain str goes over the wire RAW ('s' + code points): the model converts it as the code does"""
    k, v = new
    return ("s" + wire.enc_text(v)) if k == "s" else ("f" + wire.enc_chunks(v))


def line(c):
    if c["op"] == "setitem":
        return "setitemop %s %d %s" % (wire.enc_chunks(c["f"]), c["start"], enc_operand(c["new"]))
    if c["op"] == "splice":
        return "spliceop %s %s %d %s" % (wire.enc_chunks(c["f"]), enc_operand(c["new"]), c["start"], wire.enc_optint(c["end"]))
    if c["op"] == "append":
        return "appendop %s %s" % (wire.enc_chunks(c["f"]), enc_operand(c["new"]))
    raise KeyError(c["op"])


def mk_new(new):
    k, v = new
    return v if k == "s" else build(v, True)


def call(c, f, new):
    if c["op"] == "setitem":
        return f.setitem(c["start"], new)
    if c["op"] == "append":
        return f.append(new)
    if c["end"] is None:
        return f.splice(new, c["start"])
    return f.splice(new, c["start"], c["end"])


def run_impl(c):
    return call(c, mk_f(c), mk_new(c["new"]))


def impl(c):
    return guarded(lambda: reply_fmt(run_impl(c)))


def expected(c):
    """the property: Python list splice on the per-character lists of the operands"""
    # "every character keeping its own formatting" = what the character shows: EFFECTIVE formatting (an explicit False
    # style and an absent key are the same formatting; the raw dicts are compared at representation level)
    cs = wire.eff_cells_of_chunks(c["f"])
    k, v = c["new"]
    nc = [(ch, ()) for ch in v] if k == "s" else wire.eff_cells_of_chunks(v)
    if c["op"] == "setitem":        # in the oracle's domain only for 0 <= start < len and a one-character value
        return cs[:c["start"]] + nc + cs[c["start"] + 1:]
    if c["op"] == "append":
        return cs + nc
    start = c["start"]
    end = start if c["end"] is None else c["end"]
    return cs[:start] + nc + cs[end:]


def width_view(x):
    """the public `width` view: its value, or the kind of exception it raises (control characters)"""
    try:
        return ("width", x.width)
    except Exception as e:  # noqa: BLE001
        return ("width-raises", type(e).__name__)


def render_problem(r):
    """the result observed through its TERMINAL STRING: str(r) must be the rendering of r's own runs (a value rebuilt from
    the same runs renders, compares and hashes the same - no stale memo carried into the result), and what a terminal shows
    for it (SGR reader, harness/sgrterm.py) must be r's per-character cells. -> None or a description"""
    runs = wire.fmt_chunks(r)
    fresh = wire.mk_fmt(runs)
    sr = str(r)
    if sr != str(fresh) or not (r == fresh) or hash(r) != hash(fresh):
        return "str()/==/hash of the result are not those of a value rebuilt from its own runs %r: str() is %r, rebuilt %r" % (
            runs, sr, str(fresh))
    if "\x1b" not in r.s and "\x9b" not in r.s:
        shown = sgrterm.display(sr)[0]
        want = eff_cells(cells(r))
        if shown != want:
            return "a terminal shows %r for str(result), its runs say %r" % (shown, want)
    return None


def snapshot(x):
    """every public view of an operand (the verdict on "f itself is unchanged" uses these and nothing private)"""
    if isinstance(x, str):
        return x
    return (str(x), x.s, repr(x), tuple(cells(x)), len(x), width_view(x), hash(x), tuple(str(FmtStr(ch)) for ch in x.chunks))


def run_ids(x):
    """identity of the operand's run objects: representation only (a refactor may rebuild equal runs) - noted, no verdict"""
    return None if isinstance(x, str) else tuple(id(ch) for ch in x.chunks)


RUN_OBJECTS_REPLACED = [0]


def oracle(c, model_reply=None):
    """-> None, or (what, footprint). model_reply: the Lean model's reply for this request - an independent parser's value of
    what parsing the str operand explains (never the tree's own fmtstr)."""
    exp = expected(c)
    f = mk_f(c)
    new = mk_new(c["new"])
    if c["op"] == "setitem":
        n = sum(len(s) for s, _ in c["f"])
        nlen = len(c["new"][1]) if c["new"][0] == "s" else sum(len(s) for s, _ in c["new"][1])
        if not (c["start"] < n and nlen == 1):
            return None         # outside the oracle's statement (tie only): padding / rejection behaviour is C04's
    # touch the memoised views first so that a stale cache would be visible afterwards
    # (this also RENDERS both operands and each of their runs, compares and hashes them before the call)
    before_f, before_new = snapshot(f), snapshot(new)
    eq_before = (f == mk_f(c))
    ids_before = (run_ids(f), run_ids(new))
    try:
        r = call(c, f, new)
    except Exception as e:  # noqa: BLE001
        return ("%s raised %s" % (c["op"], type(e).__name__), None)
    try:    # observing the result must not raise either
        got, rs, rl = eff_cells(cells(r)), r.s, len(r)
        after_f, after_new, chunks_f = snapshot(f), snapshot(new), wire.fmt_chunks(f)
        if (run_ids(f), run_ids(new)) != ids_before:
            RUN_OBJECTS_REPLACED[0] += 1
    except Exception as e:  # noqa: BLE001
        return ("%s: reading the result raised %s" % (c["op"], type(e).__name__), None)
    try:
        rp = render_problem(r)
        if rp is None and (f == mk_f(c)) != eq_before:
            rp = "f == <an equal value> changed across the call"
    except Exception as e:  # noqa: BLE001
        rp = "rendering the result raised %s" % type(e).__name__
    if rp:
        return ("%s: %s" % (c["op"], rp), None)
    unchanged = after_f == before_f and chunks_f == [(s, dict(a)) for s, a in c["f"]] and after_new == before_new
    if got != exp:
        fp = None
        if c["new"][0] == "s" and "\x1b[" in c["new"][1] and unchanged and model_reply is not None \
                and model_reply.startswith("ok "):
            # D27 footprint: the only deviation is that the str operand was parsed (its escape sequences vanish / format
            # its characters): the real result has, character for character, the cells the Lean model (its own parser)
            # returns for the same request, and .s / len() agree with that value; operands and their views are unchanged
            # (run boundaries are representation, not part of the footprint)
            try:
                want = wire.eff_cells_of_chunks(wire.dec_fmt(model_reply[3:]))
                if got == want and rs == "".join(ch for ch, _ in want) and rl == len(want):
                    fp = "D27"
            except Exception:  # noqa: BLE001
                fp = None
        return ("%s: characters/formatting differ: got %r expected %r" % (c["op"], got, exp), fp)
    text = "".join(ch for ch, _ in exp)
    if rs != text:
        return ("%s: .s is %r, list splice gives %r" % (c["op"], rs, text), None)
    if rl != len(exp):
        return ("%s: len() is %d, number of characters is %d" % (c["op"], rl, len(exp)), None)
    if after_f != before_f or chunks_f != [(s, dict(a)) for s, a in c["f"]]:
        views = ("str()", ".s", "repr()", "cells", "len()", ".width", "hash()", "str() of each run")
        diff = [(views[i], before_f[i], after_f[i]) for i in range(len(views)) if before_f[i] != after_f[i]]
        return ("%s: operand changed: views of f before/after %r (runs %r)" % (c["op"], diff[:3], chunks_f), None)
    if after_new != before_new:
        return ("%s: operand changed: new was %r, is %r" % (c["op"], before_new, after_new), None)
    return None


def footprint(c, what):
    return None


def nontrivial(c):
    if c["op"] == "setitem":
        return True
    k, v = c["new"]
    has_new = len(v) > 0 if k == "s" else any(s for s, _ in v)
    if c["op"] == "append":
        return has_new
    n = sum(len(s) for s, _ in c["f"])
    return has_new or (c["end"] is not None and c["start"] < min(c["end"], n))


def tag(c):
    if c["op"] in ("append", "setitem"):
        return c["op"]
    n = sum(len(s) for s, _ in c["f"])
    if c["end"] is None:
        return "insert" + ("-past-end" if c["start"] > n else "")
    if c["start"] > n:
        return "splice-start-past-end"
    if c["end"] > n:
        return "splice-end-past-end"
    return "replace" if c["start"] < c["end"] else "splice-empty-range"


def model_replies(ctx, cases):
    """the Lean model's reply per case (None when the driver is unavailable: then nothing is attributed to D27)"""
    try:
        import lib
        return lib.run_driver([line(c) for c in cases])
    except Exception as e:  # noqa: BLE001
        ctx.note("model replies unavailable, no case is attributed to D27: %r" % (e,))
        return [None] * len(cases)


def judge(ctx, cases, impl_out=None, tagfn=None):
    model = model_replies(ctx, cases)
    for i, c in enumerate(cases):
        w = oracle(c, model[i])
        ctx.count(c, nontrivial=nontrivial(c) if tagfn else True,
                  tag=(tag(c) + ("/esc-str" if c["new"][0] == "s" and "\x1b" in c["new"][1] else "")) if tagfn else "search")
        if w:
            fp = w[1]
            if fp is not None and impl_out is not None and model[i] is not None and canon_eff_cells(impl_out[i]) != canon_eff_cells(model[i]):
                fp = None       # model and code disagree (on cells) on this very case: judge it without the footprint
            ctx.violation(w[0], c, fp)
            if not tagfn and len([v for v in ctx.violations if v["footprint"] is None]) > 50:
                return


def in_statement(c):
    """setitem is an anchor, not part of the statement: only its replace case (0 <= start < len, one-character value) has a
    property-level expectation; its padding / rejection behaviour (exception kinds) is compared at representation level"""
    if c["op"] != "setitem":
        return True
    n = sum(len(s) for s, _ in c["f"])
    nlen = len(c["new"][1]) if c["new"][0] == "s" else sum(len(s) for s, _ in c["new"][1])
    return c["start"] < n and nlen == 1


def check(ctx):
    cases = mk_cases(ctx)
    # property level: the per-character cells of the result with their EFFECTIVE formatting (what the statement speaks about)
    inside = [c for c in cases if in_statement(c)]
    out_in = ctx.tie("C09/splice", inside, line, impl, canon_eff_cells, canon_eff_cells)
    # representation level: the same runs (texts and RAW attribute dicts, explicit False included) as the model, and the out-of-statement setitem cases
    ctx.tie("C09/splice-runs", cases, line, impl, level="representation")
    judge(ctx, inside, out_in, tagfn=True)
    rest = [c for c in cases if not in_statement(c)]
    for c in rest:
        ctx.count(c, nontrivial=True, tag="setitem-outside-statement")
    if RUN_OBJECTS_REPLACED[0]:
        ctx.note("representation: in %d calls the operands' run OBJECTS were replaced by equal ones (all public views unchanged)"
                 % RUN_OBJECTS_REPLACED[0])


def search(ctx):
    """tie or proof broke: oracle at thorough bounds"""
    if ctx.thorough:
        return
    ctx.thorough = True
    judge(ctx, mk_cases(ctx))


def replay(payload):
    c = payload["case"]
    c["new"] = tuple(c["new"]) if isinstance(c["new"], list) else c["new"]
    if c["new"][0] == "f":
        c["new"] = ("f", [tuple(x) for x in c["new"][1]])
    c["f"] = [tuple(x) for x in c["f"]]
    return dict(case=c, implementation=impl(c), expected=repr(expected(c)), oracle=oracle(c))
