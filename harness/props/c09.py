"""C09 - splice replaces exactly the requested range and nothing else (splice, append; operand unchanged)."""
import itertools
import wire
from wire import mk_fmt, cells
from props.common import chunks_for, reply_fmt, guarded, PALETTE

PROP = "C09"
MODULES = ["Curtsies.Properties.C09"]
RULE = ("exhaustive: every layout of 0..3 runs with run lengths 0..3 (distinct characters, run i formatted with palette "
        "entry i) x 9 `new` values (empty str, fmtstr(''), FmtStr() without chunks, 1-char str, multi-char str with a "
        "space, 2-char one-run FmtStr, 2-run FmtStr, 3-run FmtStr with an empty middle run, FmtStr with explicit-False "
        "attribute) x every 0 <= start <= end <= len+2 and end omitted; append of every `new` to every layout; plus "
        "seeded random cases with up to 6 runs of length 0..5 and random multi-run `new`. non-trivial = distinct "
        "(f, new, start, end) where something is inserted or a non-empty range is deleted")
ASSUMPTIONS = ["plain str arguments contain no ESC (fmtstr(str) would parse them; covered by C17)",
               "0 <= start <= end (the property's range); negative offsets are outside the statement"]

NEWS = [
    ("s", ""),
    ("f", [("", {})]),
    ("f", []),
    ("s", "X"),
    ("s", "x y"),
    ("f", [("XY", {"fg": 35})]),
    ("f", [("X", {"bg": 46}), ("Y", {})]),
    ("f", [("X", {"fg": 33}), ("", {"bold": True}), ("YZ", {"underline": True})]),
    ("f", [("W", {"bold": False, "fg": 31})]),
]


def all_layouts():
    for n in range(0, 4):
        for lens in itertools.product(range(0, 4), repeat=n):
            yield lens


def new_chunks(new):
    """the FmtStr the library converts `new` to: a FmtStr as is, an ESC-free str as one unformatted run"""
    k, v = new
    return [(v, {})] if k == "s" else v


def mk_cases(ctx):
    cases = []
    for lens in all_layouts():
        ch = chunks_for(lens)
        n = sum(lens)
        for new in NEWS:
            for start in range(0, n + 3):
                cases.append(dict(op="splice", f=ch, new=new, start=start, end=None))
                for end in range(start, n + 3):
                    cases.append(dict(op="splice", f=ch, new=new, start=start, end=end))
            cases.append(dict(op="append", f=ch, new=new))
    ctx.exhaustive.append("splice/append over all layouts of <=3 runs of lengths 0..3 x %d new values x all "
                          "0<=start<=end<=len+2 and end omitted: %d cases" % (len(NEWS), len(cases)))
    r = ctx.rng
    alpha = "abcdefghijklmnopqrstuvwxyzABCDEFGHIJKLMNOPQRSTUVWXYZ0123456789"
    for _ in range(20000 if ctx.thorough else 3000):
        lens = tuple(r.randint(0, 5) for _ in range(r.randint(0, 6)))
        ch = chunks_for(lens, alphabet=alpha, shift=r.randint(0, 6))
        n = sum(lens)
        if r.random() < 0.3:
            new = ("s", "".join(r.choice("xyz \t\n") for _ in range(r.randint(0, 4))))
        else:
            nl = tuple(r.randint(0, 3) for _ in range(r.randint(0, 3)))
            new = ("f", chunks_for(nl, alphabet="ZYXWVUTSRQPONM", shift=r.randint(0, 6)))
        start = r.randint(0, n + 2)
        end = r.choice([None] + list(range(start, n + 3)))
        if r.random() < 0.1:
            cases.append(dict(op="append", f=ch, new=new))
        else:
            cases.append(dict(op="splice", f=ch, new=new, start=start, end=end))
    return cases


def line(c):
    nw = wire.enc_chunks(new_chunks(c["new"]))
    if c["op"] == "splice":
        return "splice %s %s %d %s" % (wire.enc_chunks(c["f"]), nw, c["start"], wire.enc_optint(c["end"]))
    if c["op"] == "append":
        return "append %s %s" % (wire.enc_chunks(c["f"]), nw)
    raise KeyError(c["op"])


def mk_new(new):
    k, v = new
    return v if k == "s" else mk_fmt(v)


def call(c, f, new):
    if c["op"] == "append":
        return f.append(new)
    if c["end"] is None:
        return f.splice(new, c["start"])
    return f.splice(new, c["start"], c["end"])


def run_impl(c):
    return call(c, mk_fmt(c["f"]), mk_new(c["new"]))


def impl(c):
    return guarded(lambda: reply_fmt(run_impl(c)))


def expected(c):
    """the property: Python list splice on the per-character lists of the operands"""
    cs = wire.cells_of_chunks(c["f"])
    k, v = c["new"]
    nc = [(ch, ()) for ch in v] if k == "s" else wire.cells_of_chunks(v)
    if c["op"] == "append":
        return cs + nc
    start = c["start"]
    end = start if c["end"] is None else c["end"]
    return cs[:start] + nc + cs[end:]


def snapshot(x):
    if isinstance(x, str):
        return x
    return (str(x), x.s, repr(x), tuple(cells(x)), len(x), tuple(id(ch) for ch in x.chunks))


def oracle(c):
    exp = expected(c)
    f = mk_fmt(c["f"])
    new = mk_new(c["new"])
    # touch the memoised views first so that a stale cache would be visible afterwards
    before_f, before_new = snapshot(f), snapshot(new)
    try:
        r = call(c, f, new)
    except Exception as e:  # noqa: BLE001
        return "%s raised %s" % (c["op"], type(e).__name__)
    got = cells(r)
    if got != exp:
        return "%s: characters/formatting differ: got %r expected %r" % (c["op"], got, exp)
    text = "".join(ch for ch, _ in exp)
    if r.s != text:
        return "%s: .s is %r, list splice gives %r" % (c["op"], r.s, text)
    if len(r) != len(exp):
        return "%s: len() is %d, number of characters is %d" % (c["op"], len(r), len(exp))
    if snapshot(f) != before_f or wire.fmt_chunks(f) != [(s, dict(a)) for s, a in c["f"]]:
        return "%s: operand changed: f was %r, is %r" % (c["op"], before_f[:3], snapshot(f)[:3])
    if snapshot(new) != before_new:
        return "%s: operand changed: new was %r, is %r" % (c["op"], before_new, snapshot(new))
    return None


def footprint(c, what):
    return None


def nontrivial(c):
    k, v = c["new"]
    has_new = len(v) > 0 if k == "s" else any(s for s, _ in v)
    if c["op"] == "append":
        return has_new
    n = sum(len(s) for s, _ in c["f"])
    return has_new or (c["end"] is not None and c["start"] < min(c["end"], n))


def tag(c):
    if c["op"] == "append":
        return "append"
    n = sum(len(s) for s, _ in c["f"])
    if c["end"] is None:
        return "insert" + ("-past-end" if c["start"] > n else "")
    if c["start"] > n:
        return "splice-start-past-end"
    if c["end"] > n:
        return "splice-end-past-end"
    return "replace" if c["start"] < c["end"] else "splice-empty-range"


def check(ctx):
    cases = mk_cases(ctx)
    # exact comparison: the model must produce the same runs (texts and attribute dicts), not only the same cells
    ctx.tie("C09/splice", cases, line, impl)
    for c in cases:
        w = oracle(c)
        ctx.count(c, nontrivial=nontrivial(c), tag=tag(c))
        if w:
            ctx.violation(w, c, footprint(c, w))


def search(ctx):
    """tie or proof broke: oracle at thorough bounds"""
    if ctx.thorough:
        return
    ctx.thorough = True
    for c in mk_cases(ctx):
        w = oracle(c)
        ctx.count(c, tag="search")
        if w:
            ctx.violation(w, c, footprint(c, w))
            if len(ctx.violations) > 50:
                return


def replay(payload):
    c = payload["case"]
    c["new"] = tuple(c["new"]) if isinstance(c["new"], list) else c["new"]
    if c["new"][0] == "f":
        c["new"] = ("f", [tuple(x) for x in c["new"][1]])
    c["f"] = [tuple(x) for x in c["f"]]
    return dict(case=c, implementation=impl(c), expected=repr(expected(c)), oracle=oracle(c))
