"""C08 - Input returns every byte and triggered event exactly once, in order.

Deterministic simulation: `curtsies.input.select/.time/.os/.Nonblocking/.getpreferredencoding` are replaced by a scripted
environment (class Env) that executes the same agenda + main-thread script the Lean model gets (Model/Input.lean);
environment actions fire "inside" select.  The REAL `Input._send`, `_wait_for_read_ready_or_timeout`,
`_nonblocking_read`, `unget_bytes`, the three trigger factories and `events.get_key` run unmodified.
The oracle (`Ledger`) is a reference queue model written from the property text; it never looks at the Lean model.
"""
import os as real_os
import select as real_select
import signal as real_signal
import threading
import time as real_time

import curtsies.input as cinput
import curtsies.termhelpers as ctermhelpers
from curtsies import events as cevents
import wire

PROP = "C08"
MODULES = ["Curtsies.Properties.C08", "Curtsies.Properties.C08Real"]
RULE = ("scripts = agenda (<= 9 timed environment actions: byte arrivals incl. bursts up to 3 KB aligned to READ_SIZE / "
        "paste_threshold / MAX_KEYPRESS_SIZE boundaries made of ASCII, 2-4 byte UTF-8 characters and escape sequences from "
        "the live key tables, possibly cut inside a character; unget_bytes; event_trigger / scheduled_event_trigger (equal and "
        "past times included) / the three steps of threadsafe callbacks (run to os.write, write lands, return); SIGINT; other signals; spurious readiness) + main script "
        "(<= 12 requests with timeout None/0/small and clock advances), paste_threshold in {None,0,1,8,default}, with and "
        "without a wake-up fd; fixed boundary enumeration + corpus (D14, D15, D16 histories) + seeded random. "
        "non-trivial = distinct scripts in which at least one request returned something or raised")
ASSUMPTIONS = [
    "entering the context must not discard input the tty has already received: the model has no notion of tcsetattr's `when` "
    "(MainOp.reenter is a no-op on its state) - the simulation's fake termios/tty discards the OS buffer on TCSAFLUSH and the "
    "real-pty scenario types ahead before each `with`; any trigger callback may be parked inside its event constructor (it holds "
    "the queue's list object, has not appended yet) while the main thread runs requests",
    "the verdict does not depend on private attributes of Input: the simulated Input is entered through the real __enter__ (fake "
    "termios/tty/signal/os.pipe), SIGINT reaches the handler Input installed with signal.signal; internal queues are READ when they "
    "exist in the expected shape (sharper, per-request conservation) and otherwise the ledger judges the returned values and drains "
    "the Input at the end of the script; the model-state comparison is a representation-level tie (C08/insim-state), the "
    "property-level tie (C08/insim) compares the returned values and the final clock",
    "atomicity of `queued_scheduled_events.sort` is CHECKED (when the attribute is a replaceable plain list; noted otherwise), not assumed: the simulation's SpyList lets a scheduled callback of "
    "another thread (agenda kind K) run between two key calls whenever the sort key is Python-level code; a C-level key gives no "
    "preemption point, as under the GIL (the model's sort is atomic)",
    "PARTIAL BY NATURE: list.append/pop(0)/extend are atomic under the GIL - the model and the simulation preempt the main "
    "thread only inside select (environment actions fire there or between requests), never inside a bytecode",
    "a thread-safe callback is the one place where the simulation preempts INSIDE a callback: the real callback runs in a helper "
    "thread parked before and after its (fake) os.write, stepped by the agenda items tsA/tsB/tsC, so 'appended, not yet written' and "
    "(for a callback that writes first) 'written, not yet appended' are both schedulable; hand-off is strict, one thread runs at a time",
    "a completed thread-safe callback must interrupt: a request may not return None / block with its event pending; events of "
    "event_trigger / scheduled_event_trigger fired DURING a blocked request are only required at the next request (their docstrings)",
    "signal delivery is modelled as: wake-up byte written and Python-level handler run at the same instant, at an agenda time",
    "select reports ready descriptors in the order of its input list and is otherwise fair; the clock only advances inside "
    "select or between requests (the main thread's own statements take no time); clock readings are integer ticks",
    "trigger event types include the library's own empty PasteEvent and user-defined FALSY events (__len__ 0, __bool__ False): a "
    "triggered event is delivered exactly once whatever its truth value (D45, fixed); encoding pinned to utf-8; keys named with Keynames.BYTES so that every returned key shows "
    "the bytes it consumed (naming itself is C03/C20)",
    "key segmentation (events.get_key) is a parameter of the Lean theorems; its own correctness is C03",
    "a scheduled event is deliverable iff when < time.time() (the code's test; 'never before its time' allows delivery from "
    "when on, and with integer ticks a request at exactly when returns None once - not flagged, by decision of the coordinator)",
    "C08_timeout and the oracle's timeout clause exclude spurious readiness and end-of-file: when select reports the stream "
    "readable and os.read returns nothing (SIGTSTP via dsusp, EOF on a pipe) the request returns None at once, by design of _send",
    "only threadsafe_event_trigger wakes a blocked request (by design); events of event_trigger / scheduled_event_trigger fired "
    "during a blocked request are required only at the next request",
    "a request that would block forever (timeout None, nothing ever arrives) is reported as such by both sides and ends the script",
]
LEVEL_NOTE = ("PARTIAL: the theorems are statements about the hand-written model (its own queue discipline), so the weight of the evidence "
              "is on the correspondence: the deterministic simulation tie (real _send/_wait/find_key/trigger code against a scripted OS, "
              "thread-safe callbacks stepped through their os.write) plus real-OS scenarios (pty, select, wake-up fd, threads, SIGINT, EOF) "
              "that feed the ledger oracle. Proof over a discrete-event model of Input in which thread preemption happens only at select and between "
              "requests (GIL atomicity of list operations, signal timing and select fairness are assumptions, named in the evidence); "
              "D15 / D12 / D35 (bytes lost when find_key raises: truncated keypress, ESC-prefix + high byte, ill-formed UTF-8) are open known "
              "findings: the byte-ledger theorem carries the complementary hypothesis 'the request does not raise' (outcome form; input-level "
              "form C08_no_loss_wellformed / C08_no_loss_real: streams made of complete keypresses). Other partial clauses, named: "
              "C08_timeout_partial and C08_none_nothing_readable_partial exclude spurious readiness / end-of-file (the real code returns "
              "None at 0.0 s on an EOF pipe; stream EOF is read as outside the quantifier: arrivals, callbacks, requests); the byte clause "
              "of C08_exactly_once_history excludes unget_bytes between requests and requests that raised (the per-request ledger covers "
              "both); footprints are judged on WHICH bytes were lost (exactly the failing key's bytes, in a paste preceded by its cleanly "
              "decoded keypresses) and are disabled on any case where model and code disagree. trusted: Lean kernel + propext/Classical.choice/Quot.sound, the "
              "hand-written model, the scripted environment of the simulation, extract.py, the wire codec; the model's loop fuel is "
              "proved sufficient (C08_no_out_of_fuel); not proved: the byte clause of the multi-request ledger when unget_bytes fires "
              "between requests or a request raised (the per-request ledger covers both)")
TRUSTED = ["the scripted environment (harness/props/c08.py class Env) implements the same select/agenda semantics as "
           "Model/Input.lean `select`/`applyEnv` - it is the specification of the outside world, written twice"]

STDIN_FD, WAKE_FD = 1000, 1001
ENC = "UTF-8"


class Deadlock(BaseException):
    """select(timeout=None) with nothing ready and nothing left to happen"""


class Livelock(BaseException):
    """one request called select more often than any correct implementation can (e.g. a trigger pipe that is never drained)"""


SELECT_BOUND = 4000


class Ev(cevents.Event):
    def __init__(self, id, kind):
        self.id, self.kind = id, kind

    def __repr__(self):
        return "<Ev %s%d>" % (self.kind, self.id)


class TPaste(cevents.PasteEvent):
    """the library's own PasteEvent, with no keypresses, used as the event type of a trigger: whatever truth value the
    library gives its events (a __len__ on PasteEvent makes an empty one falsy), a triggered event is delivered exactly once"""

    def __init__(self, id, kind):
        super().__init__()
        self.id, self.kind = id, kind

    def __repr__(self):
        return "<TPaste %s%d>" % (self.kind, self.id)


class EvLen0(Ev):
    """a user-defined event that is FALSY (a container-like event with nothing in it)"""

    def __len__(self):
        return 0


class EvFalse(Ev):
    def __bool__(self):
        return False


EVS = (Ev, TPaste)


def is_paste(r):
    """a paste of keypresses read from the stream (not a PasteEvent used as a trigger's event type)"""
    return isinstance(r, cevents.PasteEvent) and not isinstance(r, TPaste)


def mk_ev(id, kind):
    """event types of the triggers alternate between a plain Event subclass and the library's PasteEvent"""
    return [TPaste, Ev, EvLen0, Ev, EvFalse, Ev][id % 6](id, kind)


class SEv(cevents.ScheduledEvent):
    def __init__(self, when, id):
        super().__init__(when)
        self.id = id

    def __repr__(self):
        return "<SEv %d @%r>" % (self.id, self.when)


class FakeStream:
    def fileno(self):
        return STDIN_FD


TS_TIMEOUT = 10.0


class TsAbort(BaseException):
    pass


class CtorCall:
    """a trigger callback running in a helper thread, parked inside the event's constructor: the callback has already
    evaluated `self.<queue>.append` (it holds the list object) but has not appended yet"""

    def __init__(self, eid):
        self.eid = eid
        self.passed = False
        self.reached = threading.Event()
        self.go = threading.Event()
        self.done = threading.Event()
        self.thread = None


class TsCall:
    """one invocation of a thread-safe callback, running in its own helper thread"""

    def __init__(self, p, eid):
        self.p, self.eid = p, eid
        self.state = "new"            # new -> at_write -> written -> done
        self.reached = threading.Event()
        self.go_write = threading.Event()
        self.wrote = threading.Event()
        self.go_finish = threading.Event()
        self.done = threading.Event()
        self.thread = None


class SpyList(list):
    """queued_scheduled_events with the GIL rule made explicit: `list.sort` with a PYTHON-level key (a function/lambda:
    has __code__) gives other threads a chance to run between two key calls; a C-level key (operator.itemgetter, None)
    does not.  If the agenda's next item is a 'K' (a scheduled callback from another thread, due any moment) and the
    key is Python code, the callback runs in the middle of the sort, the way CPython would observe it."""

    def sort(self, key=None, reverse=False):
        env = ENV
        if (key is not None and hasattr(key, "__code__") and env is not None and len(self) >= 2
                and env.agenda and env.agenda[0][1] == "K"):
            item = env.agenda.pop(0)
            calls = [0]

            def spying_key(x):
                calls[0] += 1
                if calls[0] == 2:
                    env.apply((item[0], "S", item[2], item[3]))     # the other thread's callback: an append to this list
                return key(x)
            return list.sort(self, key=spying_key, reverse=reverse)  # CPython: ValueError("list modified during sort")
        return list.sort(self, key=key, reverse=reverse)


ENV = None  # the Env currently installed


class _Select:
    error = real_select.error

    @staticmethod
    def select(rl, wl, xl, timeout=None):
        return ENV.select(rl, timeout), [], []


class _Time:
    @staticmethod
    def time():
        return float(ENV.clock)


class _Os:
    O_NONBLOCK = real_os.O_NONBLOCK

    @staticmethod
    def read(fd, n):
        return ENV.os_read(fd, n)

    @staticmethod
    def write(fd, data):
        return ENV.os_write(fd, data)

    @staticmethod
    def pipe():
        return ENV.os_pipe()

    @staticmethod
    def close(fd):
        pass

    @staticmethod
    def set_blocking(fd, flag):
        pass


class _Nonblocking:
    """recorder standing in for termhelpers.Nonblocking (its own behaviour belongs to C12)"""

    def __init__(self, stream):
        self.stream = stream

    def __enter__(self):
        ENV.nonblocking_depth += 1

    def __exit__(self, *a):
        ENV.nonblocking_depth -= 1


class _Termios:
    """enough of termios/tty for Input.__enter__/__exit__ on the fake stream (their real behaviour is C12's subject)"""
    TCSANOW, TCSADRAIN, TCSAFLUSH = 0, 1, 2
    VSTOP, VSTART, VSUSP = 9, 8, 10
    error = OSError

    @staticmethod
    def tcgetattr(stream):
        return [0, 0, 0, 0, 0, 0, [b"\x00"] * 32]

    @staticmethod
    def tcsetattr(stream, when, attrs):
        if when == _Termios.TCSAFLUSH:
            ENV.tty_flush()


class _Tty:
    @staticmethod
    def setcbreak(stream, when=2):          # tty.setcbreak's default is TCSAFLUSH, as in the standard library
        if when == _Termios.TCSAFLUSH:
            ENV.tty_flush()


class _Signal:
    """the process' SIGINT disposition and wake-up fd, as far as Input touches them"""
    SIGINT = real_signal.SIGINT
    Signals = real_signal.Signals
    SIG_DFL, SIG_IGN = real_signal.SIG_DFL, real_signal.SIG_IGN
    default_int_handler = real_signal.default_int_handler

    @staticmethod
    def signal(signum, handler):
        old, ENV.sig_handler = ENV.sig_handler, handler
        return old

    @staticmethod
    def getsignal(signum):
        return ENV.sig_handler

    @staticmethod
    def set_wakeup_fd(fd, warn_on_full_buffer=True):
        old, ENV.wakeup_fd = ENV.wakeup_fd, fd
        return old


_saved = {}


def install():
    for name, fake in (("select", _Select), ("time", _Time), ("os", _Os), ("Nonblocking", _Nonblocking),
                       ("getpreferredencoding", lambda: ENC), ("termios", _Termios), ("tty", _Tty), ("signal", _Signal),
                       ("is_main_thread", lambda: bool(ENV is not None and ENV.has_wake))):
        _saved.setdefault(name, getattr(cinput, name))
        setattr(cinput, name, fake)


def uninstall():
    for name, v in _saved.items():
        setattr(cinput, name, v)
    _saved.clear()


class Env:
    """The outside world of one script. Mirrors Model/Input.lean (`applyEnv`, `select`, `advance`, `nonblockingRead`)."""

    def __init__(self, case):
        global ENV
        ENV = self
        self.case = case
        self.has_wake = bool(case["wake"])
        self.agenda = [tuple(a) for a in case["agenda"]]
        self.clock = 0
        self.osbuf = bytearray()
        self.spurious = False
        self.wake = []
        self.pipes = []            # unread byte counts
        self.ts_calls = []         # per pipe: TsCall objects in start order (thread-safe callbacks in flight)
        self.nonblocking_depth = 0
        self.selects = 0           # select calls of the current request (bounded: SELECT_BOUND)
        self.log = []              # what the environment saw (for the oracle)
        self.next_sched_id = None
        self.bad = []              # protocol breaches of the code against the fake OS
        self.total_bytes = sum(len(a[2]) // 2 for a in self.agenda if a[1] in "AU")   # bytes this script can ever deliver
        self.sig_handler = real_signal.default_int_handler   # fake process state (see _Signal)
        self.wakeup_fd = -1
        self.entering = False
        self.uninstrumented = set()    # internals the simulation could not instrument / read (noted, never a verdict)
        self.inp = cinput.Input(in_stream=FakeStream(), keynames="bytes", paste_threshold=case["thr"], sigint_event=True)
        # enter the context through the PUBLIC path (fake termios/tty/signal/os.pipe): in the "main thread" (has_wake) this
        # creates the wake-up pipe and installs Input's SIGINT handler; otherwise neither (as in a non-main thread)
        try:
            self.entering = True
            self.inp.__enter__()
        except Exception as e:  # noqa: BLE001
            self.uninstrumented.add("__enter__ under the simulated OS raised %s" % type(e).__name__)
            if self.has_wake:
                try:
                    self.inp.wakeup_read_fd = WAKE_FD
                    self.sig_handler = self.inp.sigint_handler
                except Exception:  # noqa: BLE001
                    pass
        finally:
            self.entering = False
        self.ctor_calls = {}           # eid -> CtorCall (callbacks parked in the event constructor)
        self.trig = [self.inp.event_trigger(lambda id, k=k: (self.ctor_gate(), mk_ev(id, "q%d" % k))[1]) for k in range(2)]
        # GIL model of list.sort: only if the scheduled events really are a plain list attribute that can be replaced
        try:
            if type(self.inp.queued_scheduled_events) is list and not self.inp.queued_scheduled_events:
                self.inp.queued_scheduled_events = SpyList()
            else:
                self.uninstrumented.add("queued_scheduled_events is not a plain list: no sort to preempt")
        except Exception:  # noqa: BLE001
            self.uninstrumented.add("queued_scheduled_events is not a settable list: no sort to preempt")
        self.sched = self.inp.scheduled_event_trigger(lambda when: (self.ctor_gate(), SEv(when, self.cur_sched_id()))[1])
        self.ts = [self.inp.threadsafe_event_trigger(lambda id, p=p: (self.ctor_gate(), mk_ev(id, "i%d" % p))[1])
                   for p in range(case["npipes"])]

    # ---- fake OS ----
    def tty_flush(self):
        """tcsetattr(..., TCSAFLUSH): the kernel discards input that was received but not read"""
        if self.osbuf:
            self.log.append(("flushed", bytes(self.osbuf)))
            del self.osbuf[:]

    def reenter(self):
        """the application leaves the Input context and enters it again (between two requests)"""
        try:
            self.inp.__exit__(None, None, None)
            self.entering = True
            self.inp.__enter__()
        except Exception as e:  # noqa: BLE001
            self.uninstrumented.add("re-entering the context under the simulated OS raised %s" % type(e).__name__)
        finally:
            self.entering = False

    def os_pipe(self):
        if self.entering:                      # Input.__enter__: the signal wake-up pipe
            return WAKE_FD, WAKE_FD + 1
        i = len(self.pipes)
        self.pipes.append(0)
        self.ts_calls.append([])
        return 2000 + 2 * i, 2001 + 2 * i

    def os_write(self, fd, data):
        """The only observable point inside a thread-safe callback.  Called from the helper thread that runs the REAL
        callback: it pauses BEFORE performing the write (until the tsB agenda item) and AFTER it (until tsC), so that
        'appended, not yet written' and - for a callback that writes first - 'written, not yet appended' are both
        schedulable states.  Hand-off is strict (one thread runs at a time), so a script is deterministic."""
        p = (fd - 2001) // 2
        if fd < 2001 or (fd - 2001) % 2 or p >= len(self.pipes):
            self.bad.append("write to unknown fd %r" % fd)
            return len(data)
        call = getattr(threading.current_thread(), "ts_call", None)
        if call is None:
            self.bad.append("os.write outside a thread-safe callback")
            self.pipes[p] += len(data)
            return len(data)
        call.state = "at_write"
        call.reached.set()
        if not call.go_write.wait(TS_TIMEOUT):
            raise TsAbort()
        self.pipes[p] += len(data)
        self.log.append(("ts_write", p, call.eid))
        call.state = "written"
        call.wrote.set()
        if not call.go_finish.wait(TS_TIMEOUT):
            raise TsAbort()
        return len(data)

    # ---- any trigger callback parked inside its event constructor (agenda items P/Q, E/F, V) ----
    def ctor_gate(self):
        call = getattr(threading.current_thread(), "ctor_call", None)
        if call is not None and not call.passed:
            call.passed = True
            call.reached.set()
            if not call.go.wait(TS_TIMEOUT):
                raise TsAbort()

    def cur_sched_id(self):
        call = getattr(threading.current_thread(), "ctor_call", None)
        return call.eid if call is not None else self.next_sched_id

    def ctor_start(self, eid, fn, ts_call=None):
        """run fn() in a helper thread until it is inside the event constructor (or finished)"""
        call = CtorCall(eid)
        self.ctor_calls[eid] = call

        def body():
            threading.current_thread().ctor_call = call
            if ts_call is not None:
                threading.current_thread().ts_call = ts_call
            try:
                fn()
            except TsAbort:
                pass
            except BaseException as e:  # noqa: BLE001
                self.bad.append("trigger callback raised %s" % type(e).__name__)
            finally:
                call.reached.set()
                call.done.set()
                if ts_call is not None:
                    ts_call.state = "done"
                    self.log.append(("ts_done", "i%d" % ts_call.p, ts_call.eid))
                    ts_call.reached.set()
                    ts_call.wrote.set()
                    ts_call.done.set()
        call.thread = threading.Thread(target=body, daemon=True)
        call.thread.start()
        if not call.reached.wait(TS_TIMEOUT):
            self.bad.append("trigger callback did not reach the event constructor")
        return call

    def ctor_finish(self, eid):
        call = self.ctor_calls.get(eid)
        if call is None:
            self.bad.append("no callback is parked in the constructor of event %d" % eid)
            return
        call.go.set()
        if not call.done.wait(TS_TIMEOUT):
            self.bad.append("trigger callback did not finish")

    # ---- thread-safe callbacks: run in a helper thread, stepped by the agenda items tsA / tsB / tsC ----
    def ts_start(self, p, eid):
        parked = self.ctor_calls.get(eid)
        if parked is not None and not parked.go.is_set() and getattr(parked, "ts_call", None) is not None:
            # the callback was started earlier (V) and is parked in the event constructor: let it go on to its os.write
            call = parked.ts_call
            self.ts_calls[p].append(call)
            self.log.append(("ts_start", "i%d" % p, eid))
            parked.go.set()
            if not call.reached.wait(TS_TIMEOUT):
                self.bad.append("thread-safe callback did not reach os.write")
            return
        call = TsCall(p, eid)
        self.ts_calls[p].append(call)
        self.log.append(("ts_start", "i%d" % p, eid))

        def body():
            threading.current_thread().ts_call = call
            try:
                self.ts[p](id=eid)
            except TsAbort:
                pass
            except BaseException as e:  # noqa: BLE001
                self.bad.append("thread-safe callback raised %s" % type(e).__name__)
            finally:
                call.state = "done"
                self.log.append(("ts_done", "i%d" % p, eid))
                call.reached.set()
                call.wrote.set()
                call.done.set()
        call.thread = threading.Thread(target=body, daemon=True)
        call.thread.start()
        if not call.reached.wait(TS_TIMEOUT):
            self.bad.append("thread-safe callback did not reach os.write")

    def ts_write(self, p):
        call = next((c for c in self.ts_calls[p] if c.state == "at_write" and not c.go_write.is_set()), None)
        if call is None:
            self.bad.append("tsB: no callback of pipe %d is waiting to write" % p)
            return
        call.go_write.set()
        if not call.wrote.wait(TS_TIMEOUT):
            self.bad.append("thread-safe callback did not complete its write")

    def ts_finish(self, p):
        call = next((c for c in self.ts_calls[p] if c.state == "written" and not c.go_finish.is_set()), None)
        if call is None:
            self.bad.append("tsC: no callback of pipe %d has written" % p)
            return
        call.go_finish.set()
        if not call.done.wait(TS_TIMEOUT):
            self.bad.append("thread-safe callback did not finish")

    def ts_cleanup(self):
        """release every helper still parked (script ended / aborted)"""
        for c in self.ctor_calls.values():
            tc = getattr(c, "ts_call", None)
            if tc is not None:
                tc.go_write.set()
                tc.go_finish.set()
            c.go.set()
        for calls in self.ts_calls:
            for c in calls:
                c.go_write.set()
                c.go_finish.set()
        for calls in self.ts_calls:
            for c in calls:
                if c.thread is not None:
                    c.thread.join(TS_TIMEOUT)
        for c in self.ctor_calls.values():
            if c.thread is not None:
                c.thread.join(TS_TIMEOUT)

    def os_read(self, fd, n):
        if fd == STDIN_FD:
            if self.nonblocking_depth != 1:
                self.bad.append("stdin read outside Nonblocking")
            self.spurious = False
            if not self.osbuf:
                self.log.append(("read", 0))
                raise BlockingIOError()
            data = bytes(self.osbuf[:n])
            del self.osbuf[:n]
            self.log.append(("read", data))
            return data
        if fd == WAKE_FD and self.has_wake:
            if not self.wake or n != 1:
                self.bad.append("bad wake read")
                raise BlockingIOError()
            return bytes([self.wake.pop(0)])
        p = (fd - 2000) // 2
        if fd >= 2000 and (fd - 2000) % 2 == 0 and p < len(self.pipes) and self.pipes[p] > 0:
            k = min(n, self.pipes[p])
            self.pipes[p] -= k
            return b"x" * k
        self.bad.append("read from fd %r that is not readable" % fd)
        raise BlockingIOError()

    def ready(self, fd):
        if fd == STDIN_FD:
            return bool(self.osbuf) or self.spurious
        if fd == WAKE_FD and self.has_wake:
            return bool(self.wake)
        p = (fd - 2000) // 2
        return fd >= 2000 and (fd - 2000) % 2 == 0 and p < len(self.pipes) and self.pipes[p] > 0

    def select(self, rl, timeout):
        self.selects += 1
        if self.selects > SELECT_BOUND:
            raise Livelock()
        deadline = None if timeout is None else self.clock + timeout
        while True:
            rs = [fd for fd in rl if self.ready(fd)]
            if rs:
                return rs
            if not self.agenda:
                if deadline is None:
                    raise Deadlock()
                self.clock = max(self.clock, deadline)
                return []
            t = self.agenda[0][0]
            if deadline is None or t <= deadline:
                item = self.agenda.pop(0)
                self.clock = max(self.clock, t)
                self.apply(item)
            else:
                self.clock = max(self.clock, deadline)
                return []

    # ---- environment actions ----
    def apply(self, item):
        kind = item[1]
        if kind == "A":
            self.osbuf += bytes.fromhex(item[2])
            self.log.append(("arrive", bytes.fromhex(item[2])))
        elif kind == "U":
            self.inp.unget_bytes(bytes.fromhex(item[2]))
            self.log.append(("unget", bytes.fromhex(item[2])))
        elif kind == "T":
            self.log.append(("trigger", "q%d" % (item[2] % 2), item[2]))
            self.trig[item[2] % 2](id=item[2])
        elif kind in ("S", "K"):       # K = S whose callback may also land in the middle of a non-atomic sort (SpyList)
            self.log.append(("schedule", item[2], item[3]))
            self.next_sched_id = item[3]
            self.sched(item[2])
        elif kind == "P":              # a scheduled callback starts in another thread and is parked in the constructor
            self.ctor_start(item[3], lambda: self.sched(item[2]))
        elif kind == "Q":              # ... it goes on: the event is appended now
            self.log.append(("schedule", item[2], item[3]))
            self.ctor_finish(item[3])
        elif kind == "E":              # the same for an event_trigger callback
            self.ctor_start(item[2], lambda: self.trig[item[2] % 2](id=item[2]))
        elif kind == "F":
            self.log.append(("trigger", "q%d" % (item[2] % 2), item[2]))
            self.ctor_finish(item[2])
        elif kind == "V":              # a thread-safe callback parked in the constructor, before its append (then X, Y, W)
            tc = TsCall(item[2], item[3])
            cc = self.ctor_start(item[3], lambda: self.ts[item[2]](id=item[3]), ts_call=tc)
            cc.ts_call = tc
        elif kind == "X":
            self.ts_start(item[2], item[3])
        elif kind == "Y":
            self.ts_write(item[2])
        elif kind == "W":
            self.ts_finish(item[2])
        elif kind == "I":
            if self.has_wake:
                self.wake.append(int(real_signal.SIGINT))
                self.log.append(("sigint",))
                if callable(self.sig_handler) and self.sig_handler is not real_signal.default_int_handler:
                    self.sig_handler(real_signal.SIGINT, None)      # the handler Input installed with signal.signal
        elif kind == "G":
            if self.has_wake:
                self.wake.append(item[2])
        elif kind == "Z":
            self.spurious = True
            self.log.append(("spurious",))
        else:
            raise KeyError(kind)

    def advance(self, dt):
        self.clock += dt
        while self.agenda and self.agenda[0][0] <= self.clock:
            self.apply(self.agenda.pop(0))

    # ---- running ----
    def held(self):
        """What the Input still holds, read from its attributes WHEN they exist in the expected shape (None otherwise:
        the oracle then judges by draining, see Ledger.finish)."""
        inp = self.inp

        def rd(name, conv):
            try:
                return conv(getattr(inp, name))
            except Exception:  # noqa: BLE001
                self.uninstrumented.add("%s not readable" % name)
                return None

        def as_bytes(x):
            if isinstance(x, (bytes, bytearray)):
                return bytes(x)
            return b"".join(bytes(b) if isinstance(b, (bytes, bytearray)) else bytes([b]) for b in x)

        def pairs(x):
            out = [(w, e) for w, e in x]
            if not all(isinstance(e, SEv) for _, e in out):
                raise TypeError
            return out

        def evs(x):
            out = list(x)
            if not all(isinstance(e, EVS) for e in out):
                raise TypeError
            return out
        return dict(u=rd("unprocessed_bytes", as_bytes), o=bytes(self.osbuf), g=rd("sigints", len),
                    q=rd("queued_events", evs), i=rd("queued_interrupting_events", evs),
                    s=rd("queued_scheduled_events", pairs))

    def run(self, observer=None):
        """-> list of result tokens; observer(kind, ...) is called around every request"""
        out = []
        for op in self.case["ops"]:
            if op[0] == "d":
                self.advance(op[1])
                continue
            if op[0] == "x":
                self.reenter()
                continue
            if observer:
                observer.start(self, op[1])
            self.selects = 0
            try:
                r = self.inp.send(op[1])
            except Livelock:
                out.append("L")
                if observer:
                    observer.end(self, "livelock", None)
                break
            except Deadlock:
                out.append("B")
                if observer:
                    observer.end(self, "blocked", None)
                break
            except Exception as e:  # noqa: BLE001 - exception kinds are compared
                out.append(wire.exc_kind(e))
                if observer:
                    observer.end(self, "raised", e)
                continue
            if is_paste(r) and sum(len(k) for k in r.events if isinstance(k, bytes)) > self.total_bytes:
                # a paste holding more bytes than the whole script delivers: say so briefly instead of dragging megabytes along
                out.append("p:!%d-bytes-of-%d" % (sum(len(k) for k in r.events if isinstance(k, bytes)), self.total_bytes))
                if observer:
                    observer.end(self, "overfull", r)
                break
            out.append(enc_result(r))
            if observer:
                observer.end(self, "returned", r)
        return out

    def state_str(self):
        h = self.held()
        nats = lambda l: ",".join(str(int(x)) for x in l) or "-"
        s = []
        for when, e in (h["s"] or []):
            s += [when, e.id]
        opt = lambda v, f: "?" if v is None else f(v)
        return "u=%s o=%s g=%s q=%s i=%s s=%s z=%d p=%s w=%s c=%d a=%d" % (
            opt(h["u"], hx), hx(h["o"]), opt(h["g"], str), opt(h["q"], lambda q: nats(e.id for e in q)),
            opt(h["i"], lambda q: nats(e.id for e in q)), "?" if h["s"] is None else nats(s),
            int(self.spurious), nats(self.pipes), nats(self.wake), int(self.clock), len(self.agenda))


def hx(b):
    return bytes(b).hex() or "-"


def enc_result(r):
    if r is None:
        return "n"
    if isinstance(r, bytes):
        return "k:" + hx(r)
    if is_paste(r):
        return "p:" + ",".join(hx(k) for k in r.events)
    if isinstance(r, SEv):
        return "s:%d" % r.id
    if isinstance(r, EVS):
        return "%s:%d" % (r.kind[0], r.id)
    if isinstance(r, cevents.SigIntEvent):
        return "g"
    return "?%r" % (r,)


# ------------------------------------------------------------------------------------------------
# wire
# ------------------------------------------------------------------------------------------------

def enc_item(it):
    t, k = it[0], it[1]
    # a callback parked in its event constructor has not done anything yet as far as the model is concerned (a no-op item);
    # the append happens when it goes on
    if k in "PEV":
        return "W%d:0" % t
    if k == "Q":
        return "S%d:%d:%d" % (t, it[2], it[3])
    if k == "F":
        return "T%d:%d" % (t, it[2])
    if k in "AU":
        return "%s%d:%s" % (k, t, it[2] or "-")
    if k in "TYGW":
        return "%s%d:%d" % (k, t, it[2])
    if k in "SXK":                  # for the model K is an ordinary schedule item: its sort is atomic
        return "%s%d:%d:%d" % ("S" if k == "K" else k, t, it[2], it[3])
    return "%s%d" % (k, t)


def enc_op(op):
    if op[0] == "x":
        return "x"
    return "r" + wire.enc_optint(op[1]) if op[0] == "r" else "d%d" % op[1]


def line(c):
    return " ".join(["insim", str(cinput.READ_SIZE), str(cevents.MAX_KEYPRESS_SIZE), wire.enc_optint(c["thr"]),
                     str(int(c["wake"])), str(c["npipes"]), str(len(c["agenda"]))]
                    + [enc_item(a) for a in c["agenda"]] + [enc_op(o) for o in c["ops"]])


def impl(c):
    env = Env(c)
    try:
        out = env.run()
        if env.bad:
            return "bad-env " + "; ".join(env.bad)
        return " ".join(out) + " | " + env.state_str()
    finally:
        env.ts_cleanup()


# ------------------------------------------------------------------------------------------------
# oracle: reference ledger, from the property text
# ------------------------------------------------------------------------------------------------

def is_shuffle_prefix(merged, a, b):
    """merged is an order-preserving interleaving of a PREFIX of a and a PREFIX of b"""
    front = {0}
    for i, x in enumerate(merged):
        nxt = set()
        for j in front:
            ia = i - j
            if ia < len(a) and a[ia] == x:
                nxt.add(j)
            if j < len(b) and b[j] == x:
                nxt.add(j + 1)
        if not nxt:
            return False
        front = nxt
    return True


def is_shuffle(merged, a, b):
    """merged is an order-preserving interleaving of a and b"""
    if len(merged) != len(a) + len(b):
        return False
    if not b:
        return merged == a
    front = {0}                      # possible numbers of b-bytes consumed
    for i, x in enumerate(merged):
        nxt = set()
        for j in front:
            ia = i - j
            if ia < len(a) and a[ia] == x:
                nxt.add(j)
            if j < len(b) and b[j] == x:
                nxt.add(j + 1)
        if not nxt:
            return False
        front = nxt
    return len(b) in front


def incomplete_tail(lost):
    """D15 footprint helper: `lost` ends with a non-empty proper prefix of a multi-byte keypress that is not a
    keypress by itself (unfinished UTF-8 lead sequence, or an escape-sequence prefix get_key cannot name)"""
    for k in range(1, min(len(lost), cevents.MAX_KEYPRESS_SIZE) + 1):
        t = bytes(lost[-k:])
        try:
            if cevents.get_key([t[i:i + 1] for i in range(len(t))], ENC, keynames=cevents.Keynames.BYTES, full=True) is None:
                return True
        except Exception:  # noqa: BLE001
            pass
    return False


def segments_more(data):
    """keypresses of `data` as decoded while MORE bytes follow (full=False throughout); None unless it splits exactly"""
    out, i, n = [], 0, len(data)
    try:
        while i < n:
            cur = []
            while True:
                if i >= n:
                    return None
                cur.append(data[i:i + 1])
                i += 1
                k = cevents.get_key(cur, ENC, keynames=cevents.Keynames.BYTES, full=False)
                if k is not None:
                    out.append(k)
                    break
    except (UnicodeDecodeError, ValueError):
        return None
    return out


def first_failure(data):
    """start offset of the first keypress of `data` that progressive decoding (get_key, one more byte at a time) cannot
    complete - because get_key raises or the data end inside it; None when everything decodes"""
    i, n = 0, len(data)
    while i < n:
        start, cur = i, []
        while True:
            if i >= n:
                return start
            cur.append(data[i:i + 1])
            i += 1
            try:
                k = cevents.get_key(cur, ENC, keynames=cevents.Keynames.BYTES, full=False)
            except (UnicodeDecodeError, ValueError):
                return start
            if k is not None:
                break
    return None


def ideal_segments(data):
    """The keypresses of a burst as an ideal decoder sees them: it always has the whole burst buffered, so `full` is true
    only on the burst's last byte.  Independent of Input: curtsies.events.get_key fed one more byte at a time.
    -> list of keys, or None when the burst is in the footprint of D12 / D15 / D35 (get_key raises / the burst ends
    inside a keypress)."""
    out, i, n = [], 0, len(data)
    try:
        while i < n:
            cur = []
            while True:
                if i >= n:
                    return None                       # ends inside a keypress: D15
                cur.append(data[i:i + 1])
                i += 1
                k = cevents.get_key(cur, ENC, keynames=cevents.Keynames.BYTES, full=(i == n))
                if k is not None:
                    out.append(k)
                    break
    except (UnicodeDecodeError, ValueError):
        return None                                   # D12 / D35 (or an over-long sequence)
    return out


class Ledger:
    """Reference queue model.  Entered items come from the environment's log, returned items from the values the
    requests returned; `held` is what the Input object and the OS buffer still hold."""

    def __init__(self, case, no_footprints=False):
        self.case = case
        self.blind = set()        # sources whose internal queue could not be read (judged by draining at the end)
        self.raisers = []
        self.desync = False       # blind mode only: the position of a loss could not be determined
        self.no_footprints = no_footprints   # re-judging a case on which model and code disagree: nothing is excused
        self.pend0 = b""
        self.S = bytearray()      # stream bytes in arrival order
        self.U = bytearray()      # unget bytes in call order
        self.R = bytearray()      # bytes of returned keypresses, in return order
        self.ent = {}             # trigger -> ids entered (trigger order)
        self.ret = {}             # trigger -> ids returned
        self.sched = []           # (when, seq, id) entered
        self.sched_ret = set()
        self.sig_in = self.sig_out = 0
        self.inflight = set()     # thread-safe callbacks started and not finished: (trigger, id)
        self.pos = 0
        self.problems = []        # (what, footprint)
        self.req = 0

    def absorb(self, env):
        for rec in env.log[self.pos:]:
            k = rec[0]
            if k == "arrive":
                self.S += rec[1]
            elif k == "unget":
                self.U += rec[1]
            elif k == "trigger":
                self.ent.setdefault(rec[1], []).append(rec[2])
            elif k == "ts_start":
                self.ent.setdefault(rec[1], []).append(rec[2])
                self.inflight.add((rec[1], rec[2]))
            elif k == "ts_done":
                self.inflight.discard((rec[1], rec[2]))
            elif k == "schedule":
                self.sched.append((rec[1], len(self.sched), rec[2]))
            elif k == "sigint":
                self.sig_in += 1
        recs = env.log[self.pos:]
        self.pos = len(env.log)
        return recs

    def pending_sched(self):
        return [s for s in self.sched if s[2] not in self.sched_ret]

    def completed_pending(self):
        """events whose callback has run to completion and that no request has returned yet"""
        return [(k, e) for k, v in self.ent.items() for e in v
                if e not in self.ret.get(k, []) and (k, e) not in self.inflight]

    def deliverable(self, clock):
        if (len(self.R) < len(self.S) + len(self.U) and not self.desync) or self.sig_in > self.sig_out:
            return True
        if self.completed_pending():
            return True
        return any(w < clock for w, _, _ in self.pending_sched())

    def start(self, env, timeout):
        self.absorb(env)
        self.t0 = env.clock
        self.timeout = timeout
        self.was_deliverable = self.deliverable(env.clock)
        self.sched_at_start = bool(self.pending_sched())
        self.n_sched_at_start = len(self.sched)
        self.spur0 = env.spurious
        h0 = env.held()
        # what the Input and the OS buffer hold when the request starts (None: the Input's buffer cannot be read)
        self.pend0 = None if h0["u"] is None else h0["u"] + h0["o"]
        self.req += 1

    def blind_raise(self, r, reads):
        """A request raised and the Input's byte buffer cannot be read.  What find_key had popped for the failing key is in
        the exception (decoder input / message), as loss_footprint uses it; the pending bytes are what arrived minus what was
        returned (the ledger is kept resynchronised).  The loss is recorded - with the known finding's footprint when the
        failing key has its shape - and the ledger forgets the lost bytes, so that later requests are judged on their own."""
        if isinstance(r, UnicodeDecodeError):
            cur, kind = bytes(r.object), None
            if len(cur) >= 2 and cur[:-1] in cevents.KEYMAP_PREFIXES and cur[-1] >= 0x80:
                kind = "D12"
            elif cur and cur[0] >= 0x80 and not cevents.decodable(cur, ENC) and not cevents.could_be_unfinished_char(cur, ENC):
                kind = "D35"
        elif isinstance(r, ValueError) and str(r).startswith("Couldn't identify key sequence"):
            cur, kind = parse_lost(str(r)), "D15"
            try:
                pieces = [cur[i:i + 1] for i in range(len(cur))]
                if (not cur or len(cur) >= cevents.MAX_KEYPRESS_SIZE
                        or any(cevents.get_key(pieces[:j], ENC, keynames=cevents.Keynames.BYTES, full=False) is not None
                               for j in range(1, len(cur)))
                        or cevents.get_key(pieces, ENC, keynames=cevents.Keynames.BYTES, full=True) is not None):
                    kind = None
            except Exception:  # noqa: BLE001
                kind = None
        else:
            self.fail("request raised %s: %s" % (type(r).__name__, r), None)
            return
        if self.U or not cur:
            # with unget bytes in play the position of the loss is not determined by the returned values alone
            self.desync = True
            self.fail("bytes lost (request raised %s)" % type(r).__name__, None if self.no_footprints else kind)
            return
        pending = bytes(self.S)[len(self.R):]
        thr = self.case["thr"]
        first = next((d for d in reads if d != 0), None)
        in_paste = first is not None and thr is not None and len(first) > thr
        cut = None
        if in_paste:
            # the paste's cleanly decoded keypresses, then the failing key: where progressive decoding of the pending bytes
            # first fails is determined by the bytes alone
            pos = first_failure(pending)
            if pos is not None and pending[pos:pos + len(cur)] == cur:
                cut = pos + len(cur)
        elif pending.startswith(cur):
            cut = len(cur)
        if cut is None:
            self.desync = True
            self.fail("bytes lost (request raised %s): the failing key %r is not at the head of the pending bytes"
                      % (type(r).__name__, cur), None)
            return
        self.fail("bytes lost (request raised %s): %d pending bytes gone" % (type(r).__name__, cut),
                  None if self.no_footprints else kind)
        del self.S[len(self.R):len(self.R) + cut]

    def loss_footprint(self, how, r, recs, h, reads):
        """Known-finding footprint of a loss, judged on WHICH bytes were lost: exactly the bytes find_key had popped for the
        key it failed on - preceded, only when a paste was being collected, by the cleanly decoded keypresses of that paste.
        Anything more (buffered bytes thrown away as well, complete keypresses among the lost bytes) is not a known finding."""
        if how != "raised" or self.no_footprints:
            return None
        if self.pend0 is None:
            return None
        pending = self.pend0 + b"".join(x[1] for x in recs if x[0] in ("arrive", "unget"))
        held = h["u"] + h["o"]
        if held and not pending.endswith(held):
            return None
        lost = pending[:len(pending) - len(held)]
        if isinstance(r, ValueError) and not isinstance(r, UnicodeDecodeError) and str(r).startswith("Couldn't identify key sequence"):
            cur, kind = parse_lost(str(r)), "D15"
        elif isinstance(r, UnicodeDecodeError):
            cur, kind = bytes(r.object), None
            if len(cur) >= 2 and cur[:-1] in cevents.KEYMAP_PREFIXES and cur[-1] >= 0x80:
                kind = "D12"       # a KEYMAP_PREFIXES member followed by one byte >= 0x80
            elif cur[0] >= 0x80 and not cevents.decodable(cur, ENC) and not cevents.could_be_unfinished_char(cur, ENC):
                kind = "D35"       # ill-formed UTF-8 in mid-stream (not a truncated valid prefix: that would be D15)
        else:
            return None
        if kind is None or not cur or not lost.endswith(cur):
            return None
        prefix = lost[:len(lost) - len(cur)]
        thr = self.case["thr"]
        first = next((d for d in reads if d != 0), None)
        in_paste = first is not None and thr is not None and len(first) > thr
        if prefix and not (in_paste and segments_more(prefix) is not None):
            return None            # more than the failing key was lost, and it was not a paste's cleanly decoded keypresses
        if kind == "D15":
            # the tail is a proper prefix of a keypress: nothing inside it is a keypress, and the buffer was exhausted
            if h["u"] or len(cur) >= cevents.MAX_KEYPRESS_SIZE:
                return None
            try:
                pieces = [cur[i:i + 1] for i in range(len(cur))]
                if any(cevents.get_key(pieces[:j], ENC, keynames=cevents.Keynames.BYTES, full=False) is not None
                       for j in range(1, len(cur))):
                    return None
                if cevents.get_key(pieces, ENC, keynames=cevents.Keynames.BYTES, full=True) is not None:
                    return None
            except Exception:  # noqa: BLE001
                return None
        return kind

    def fail(self, what, fp=None):
        self.problems.append(("request %d: %s" % (self.req, what), fp))

    def end(self, env, how, r):
        recs = self.absorb(env)
        now = env.clock
        reads = [x[1] for x in recs if x[0] == "read"]
        spurious = any(x[0] == "spurious" for x in recs) or self.spur0
        scheduled_seen = self.sched_at_start or any(x[0] == "schedule" for x in recs)
        if how == "overfull":
            self.fail("paste event holds %d bytes, more than the %d this script ever delivered (keypresses returned twice)"
                      % (sum(len(k) for k in r.events if isinstance(k, bytes)), env.total_bytes))
            return
        # -- what came back
        if how == "returned" and r is not None:
            if isinstance(r, bytes):
                self.R += r
            elif is_paste(r):
                for k in r.events:
                    if isinstance(k, bytes):
                        self.R += k
                    else:
                        self.fail("paste event holds %r, not a keypress" % (k,))
            elif isinstance(r, SEv):
                pend = self.pending_sched()
                mine = [s for s in pend if s[2] == r.id]
                if not mine:
                    self.fail("scheduled event %d returned twice or never scheduled" % r.id)
                else:
                    if now < r.when:
                        self.fail("scheduled event %d (when=%r) returned at clock %r, before its time" % (r.id, r.when, now))
                    first = min(pend)
                    if first[2] != r.id:
                        # footprint D20: the earlier-timed event was scheduled during this very request
                        fp20 = None   # (was D22: fixed in /repo 07d34d9)
                        self.fail("scheduled event %d (when=%r) returned while event %d (when=%r, triggered %s) was pending: "
                                  "not in time order" % (r.id, r.when, first[2], first[0],
                                                         "earlier" if first[1] < mine[0][1] else "later"), fp20)
                    self.sched_ret.add(r.id)
            elif isinstance(r, EVS):
                self.ret.setdefault(r.kind, []).append(r.id)
            elif isinstance(r, cevents.SigIntEvent):
                self.sig_out += 1
            else:
                self.fail("unknown value returned: %r" % (r,))
        # -- conservation: exactly once, per-source order.  What the Input still holds is read from its attributes when they
        #    are there; a source whose queue cannot be read is judged on the returned values alone (no duplicate, no reordering
        #    now; nothing missing after the drain at the end of the script: Ledger.finish)
        h = env.held()
        if h["u"] is None:
            self.blind.add("bytes")
            if how == "raised":
                self.blind_raise(r, reads)
            if not self.desync and not is_shuffle_prefix(bytes(self.R), bytes(self.S), bytes(self.U)):
                self.fail("keypress bytes duplicated or reordered: %d returned are not a prefix of the %d that arrived"
                          % (len(self.R), len(self.S) + len(self.U)))
        else:
            merged = bytes(self.R) + h["u"] + h["o"]
            if not is_shuffle(merged, bytes(self.S), bytes(self.U)):
                fp = self.loss_footprint(how, r, recs, h, reads)
                self.fail("bytes lost, duplicated or reordered (%s): entered %d stream + %d unget bytes, returned %d, still held %d"
                          % ("request raised %s" % type(r).__name__ if how == "raised" else how, len(self.S), len(self.U),
                             len(self.R), len(h["u"]) + len(h["o"])), fp)
                # resynchronise so that one loss is reported once: forget what is gone
                self.S = bytearray(merged)
                self.U = bytearray()
                self.R = bytearray(merged[:len(self.R)])
            elif how == "raised":
                self.fail("request raised %s: %s (nothing was lost)" % (type(r).__name__, r), None)
        for k, ids in self.ent.items():
            hq = h["q"] if k[0] == "q" else h["i"]
            got = self.ret.get(k, [])
            if hq is None:
                self.blind.add("events")
                if got != [e for e in ids if e in got] or len(set(got)) != len(got):
                    self.fail("events of trigger %s: triggered %r, returned %r (duplicated or out of order)" % (k, ids, got))
                continue
            heldk = [e.id for e in hq if e.kind == k]
            seen = got + heldk
            # a callback still in flight may or may not have appended its event yet; everything else must be there
            expect = [e for e in ids if (k, e) not in self.inflight or e in seen]
            if seen != expect:
                self.fail("events of trigger %s: triggered %r, returned %r, still queued %r" % (k, ids, got, heldk))
        if h["s"] is None:
            self.blind.add("scheduled")
        elif sorted(e.id for _, e in h["s"]) != sorted(s[2] for s in self.pending_sched()):
            self.fail("scheduled events lost or duplicated")
        if h["g"] is None:
            self.blind.add("sigints")
            if self.sig_out > self.sig_in:
                self.fail("SIGINT events: %d delivered, %d returned" % (self.sig_in, self.sig_out))
        elif self.sig_out + h["g"] != self.sig_in:
            self.fail("SIGINT events: %d delivered, %d returned, %d held" % (self.sig_in, self.sig_out, h["g"]))
        if how == "livelock":
            self.fail("the request called select more than %d times without returning (a descriptor that is never drained?)" % SELECT_BOUND)
        # -- a thread-safe callback that has completed interrupts the request: it may not time out / block with it pending
        stranded = [(k, e) for k, e in self.completed_pending() if k[0] == "i"]
        if stranded and not spurious and (how == "blocked" or (how == "returned" and r is None)):
            self.fail("the request %s although the thread-safe event %s%d was deliverable (its callback had completed)"
                      % ("blocked for ever" if how == "blocked" else "returned None", stranded[0][0], stranded[0][1]))
        # -- prompt
        if self.was_deliverable and how != "raised":
            if how == "blocked" or r is None:
                self.fail("something was deliverable when the request started but it %s" % ("blocked for ever" if how == "blocked" else "returned None"))
            elif now != self.t0:
                self.fail("something was deliverable when the request started but it waited %r ticks" % (now - self.t0))
        # -- timeout
        if how == "returned" and r is None and not scheduled_seen and not spurious and not self.was_deliverable:
            if self.timeout is None:
                self.fail("returned None although timeout=None and nothing was scheduled")
            elif now - self.t0 < self.timeout:
                self.fail("returned None after %r ticks, before its timeout %r, with nothing scheduled" % (now - self.t0, self.timeout))
        # -- paste
        thr = self.case["thr"]
        first = next((d for d in reads if d != 0), None)
        if first is not None and thr is not None and len(first) > thr and how == "returned":
            if not is_paste(r):
                self.fail("a read of %d bytes (> paste_threshold %d) did not come back as a paste event" % (len(first), thr))
            elif first not in b"".join(r.events):
                self.fail("paste event does not hold the burst's keypresses in order")
        # -- WHICH keypresses a paste holds: nothing can arrive once the first read of a request has happened (the paste loop
        #    never waits), so everything the paste returned plus whatever is still held was available to it as one burst
        if how == "returned" and is_paste(r) and all(isinstance(k, bytes) for k in r.events):
            burst = b"".join(r.events) + (h["u"] or b"") + h["o"]
            ideal = ideal_segments(burst)
            if ideal is not None and list(r.events) != ideal:
                j = next((x for x in range(min(len(ideal), len(r.events))) if ideal[x] != r.events[x]), min(len(ideal), len(r.events)))
                self.fail("paste event of a %d-byte burst holds %d keypresses, the burst has %d; first difference at keypress %d "
                          "(byte offset %d): paste %r, burst %r" % (len(burst), len(r.events), len(ideal), j,
                                                                   len(b"".join(ideal[:j])), r.events[j:j + 2], ideal[j:j + 2]))


def drain(env, led):
    """Only when some internal queue could not be read: let everything happen, then ask until nothing comes any more, and
    judge 'exactly once' on the returned values alone."""
    if not led.blind:
        return
    env.advance(10 ** 6)
    quiet = 0
    for _ in range(20000):
        led.start(env, 0)
        env.selects = 0
        try:
            r = env.inp.send(0)
        except (Deadlock, Livelock):
            break
        except Exception as e:  # noqa: BLE001
            led.end(env, "raised", e)
            quiet = 0
            continue
        led.end(env, "returned", r)
        quiet = quiet + 1 if r is None else 0
        if quiet >= 3:
            break
    env.advance(10 ** 6)
    left = bytes(env.osbuf)
    if "bytes" in led.blind and not led.desync and not is_shuffle(bytes(led.R) + left, bytes(led.S), bytes(led.U)):
        # every loss at a raising request has been recorded and forgotten: what is missing now was dropped silently
        led.fail("after draining: %d bytes arrived (known losses deducted), %d came back, %d still in the OS buffer" %
                 (len(led.S) + len(led.U), len(led.R), len(left)), None)
    for k, ids in led.ent.items():
        if "events" in led.blind and led.ret.get(k, []) != [e for e in ids if (k, e) not in led.inflight]:
            led.fail("after draining: events of trigger %s triggered %r, returned %r" % (k, ids, led.ret.get(k, [])))
    if "scheduled" in led.blind and led.pending_sched():
        led.fail("after draining: scheduled events never returned: %r" % ([x[2] for x in led.pending_sched()],))
    if "sigints" in led.blind and led.sig_out != led.sig_in:
        led.fail("after draining: %d SIGINT delivered, %d SigIntEvents returned" % (led.sig_in, led.sig_out))


def parse_lost(msg):
    import ast
    try:
        return b"".join(ast.literal_eval(msg.split(": ", 1)[1]))
    except Exception:  # noqa: BLE001
        return b""


def oracle(c, no_footprints=False):
    """-> list of (what, footprint)"""
    env = Env(c)
    led = Ledger(c, no_footprints)
    try:
        env.run(observer=led)
        drain(env, led)
    finally:
        env.ts_cleanup()
    UNINSTRUMENTED.update(env.uninstrumented)
    return led.problems + [("environment protocol: " + b, None) for b in env.bad]


UNINSTRUMENTED = set()


# ------------------------------------------------------------------------------------------------
# generators
# ------------------------------------------------------------------------------------------------

ESC_KEYS = None


def esc_keys():
    global ESC_KEYS
    if ESC_KEYS is None:
        ESC_KEYS = sorted(k for k in set(cevents.CURTSIES_NAMES) | set(cevents.CURSES_NAMES) if len(k) > 1)
    return ESC_KEYS


MB = ["é", "ß", "€", "→", "中", "한", "😀", "𝄞", "ａ"]


def rand_unit(r):
    x = r.random()
    if x < 0.45:
        return bytes([r.choice(b"abcxyz019 \r\t\x7f\x01")])
    if x < 0.75:
        return r.choice(MB).encode()
    if x < 0.95:
        return r.choice(esc_keys())
    return b"\x1b"


def rand_bytes(r, n, exact=True):
    out = bytearray()
    while len(out) < n:
        out += rand_unit(r)
    if exact:
        del out[n:]          # may cut inside a character / escape sequence
    return bytes(out)


def whole_units(r, n):
    """about n bytes, ending on a keypress boundary, last unit not an escape-sequence prefix of anything"""
    out = bytearray()
    while len(out) < n:
        out += rand_unit(r)
    return bytes(out) + b"z"


def sizes(thr):
    R, M = cinput.READ_SIZE, cevents.MAX_KEYPRESS_SIZE
    s = {1, 2, 3, M - 1, M, M + 1, M + 2, R - M, R - 2, R - 1, R, R + 1, R + 2, R + M - 1, R + M, 2 * R - 1, 2 * R, 2 * R + 1, 3 * R}
    if thr is not None:
        s |= {max(1, thr - 1), max(1, thr), thr + 1, thr + 2}
    return sorted(s)


def thresholds():
    return [None, 0, 1, 8, cevents.MAX_KEYPRESS_SIZE + 1]


def rand_stream(r, n, d12=False):
    """a VALID input stream of about n bytes: ASCII, UTF-8 characters, escape sequences, lone ESC keys (a lone ESC is
    followed by an ASCII unit unless d12: ESC + non-ASCII byte is C03's finding D12)"""
    out = bytearray()
    prev_esc_prefix = False
    while len(out) < n:
        u = rand_unit(r)
        if prev_esc_prefix and u[0] >= 0x80 and not d12:
            u = b"z"
        out += u
        # after a unit that is a KEYMAP_PREFIXES member (or ends the stream as one) a non-ASCII byte would hit D12
        prev_esc_prefix = any(bytes(out[-k:]) in cevents.KEYMAP_PREFIXES for k in range(1, 7))
    if prev_esc_prefix:
        out += b"z"
    return bytes(out)


def cut(r, data, k):
    """partition data into k non-empty pieces at arbitrary byte positions (inside characters too)"""
    if k <= 1 or len(data) < 2:
        return [data]
    k = min(k, len(data))
    pts = sorted(r.sample(range(1, len(data)), k - 1))
    return [data[a:b] for a, b in zip([0] + pts, pts + [len(data)])]


def rand_case(r):
    thr = r.choice(thresholds())
    wake = r.random() < 0.85
    npipes = r.choice([0, 1, 1, 2])
    d12 = r.random() < 0.05
    slots = []
    for _ in range(r.randint(0, 9)):
        x = r.random()
        slots.append("A" if x < 0.40 else "U" if x < 0.47 else "T" if x < 0.60 else "S" if x < 0.72 else
                     "X" if x < 0.86 else "I" if x < 0.93 else "G" if x < 0.98 else "Z")
    nA, nU = slots.count("A"), slots.count("U")
    # stream sizes: mostly small, sometimes a burst around a boundary
    if nA:
        total = r.choice(sizes(thr)) + r.choice([0, 0, 1, -1, 3]) if r.random() < 0.3 else r.randint(nA, 12 * nA)
        stream = rand_stream(r, max(total, nA), d12)
        if nU:
            # unget_bytes inserts bytes behind what was read: keep keypresses whole on both sides of the insertion
            apieces = [rand_stream(r, max(1, total // nA), d12) for _ in range(nA)]
        elif r.random() < 0.5:
            # one big piece + small ones: the burst arrives in one go
            small = [stream[i:i + 1] for i in range(nA - 1)]
            apieces = ([stream[:len(stream) - (nA - 1)]] + [stream[len(stream) - (nA - 1) + i:][:1] for i in range(nA - 1)]) if nA > 1 else [stream]
            apieces = [p for p in apieces if p]
        else:
            apieces = cut(r, stream, nA)
    else:
        apieces = []
    if apieces and r.random() < 0.04:
        # arbitrary bytes (not text at all: a binary paste, line noise): bytes are bytes
        k = r.randrange(len(apieces))
        apieces[k] = bytes(r.choice([0x41, 0x62, 0x1b, 0x80, 0xbf, 0xc3, 0xe2, 0x82, 0xf0, 0x9f, 0xff, r.randrange(256)])
                           for _ in range(r.randint(1, 6)))
    upieces = [rand_stream(r, r.randint(1, 4), d12) for _ in range(nU)]   # whole keypresses (what a foreign read leaves over)
    agenda, t, eid = [], 0, 0
    pend_writes, pend_done = [], []
    for k in slots:
        t += r.choice([0, 0, 0, 1, 1, 2, 5])
        if k == "A":
            if apieces:
                agenda.append((t, "A", apieces.pop(0).hex()))
        elif k == "U":
            if upieces:
                agenda.append((t, "U", upieces.pop(0).hex()))
        elif k == "T":
            agenda.append((t, "T", eid)); eid += 1
        elif k == "S":
            agenda.append((t, "S", r.choice([0, 1, 2, 3, 3, 5, 5, 8, t, t + 1, t + 3]), eid)); eid += 1
        elif k == "X":
            if npipes:
                p = r.randrange(npipes)
                agenda.append((t, "X", p, eid)); eid += 1
                pend_writes.append(p)
                if r.random() < 0.6:
                    pend_done.append(pend_writes.pop(0))
                    agenda.append((t, "Y", pend_done[-1]))
                    if r.random() < 0.6:
                        agenda.append((t, "W", pend_done.pop()))
        elif k == "I":
            if wake:
                agenda.append((t, "I"))
        elif k == "G":
            agenda.append((t, "G", 28))
        else:
            agenda.append((t, "Z"))
        if pend_writes and r.random() < 0.4:
            pend_done.append(pend_writes.pop(0))
            agenda.append((t, "Y", pend_done[-1]))
        if pend_done and r.random() < 0.4:
            agenda.append((t, "W", pend_done.pop(0)))
    for p in pend_writes:
        t += r.choice([0, 1, 4])
        agenda.append((t, "Y", p))
        pend_done.append(p)
    for p in pend_done:
        t += r.choice([0, 0, 1, 4])
        agenda.append((t, "W", p))
    # a callback from another thread parked INSIDE its event constructor while the main thread goes on (P..Q scheduled,
    # E..F event_trigger, V before X thread-safe): the append lands later, on the list object fetched earlier
    if r.random() < 0.2:
        for i in sorted([i for i, a in enumerate(agenda) if a[1] in ("S", "T")][:2], reverse=True):
            if r.random() < 0.5:
                a = agenda[i]
                j = min(len(agenda), i + 1 + r.randint(0, 3))
                tj = agenda[j - 1][0]
                if a[1] == "S":
                    agenda[i] = (a[0], "P", a[2], a[3])
                    agenda.insert(j, (tj, "Q", a[2], a[3]))
                else:
                    agenda[i] = (a[0], "E", a[2])
                    agenda.insert(j, (tj, "F", a[2]))
        x_idx = [i for i, a in enumerate(agenda) if a[1] == "X"]
        if x_idx and r.random() < 0.3:
            i = x_idx[0]
            j = max(0, i - r.randint(0, 2))
            agenda.insert(j, (agenda[j][0] if j < len(agenda) else 0, "V", agenda[i][2], agenda[i][3]))
    s_idx = [i for i, a in enumerate(agenda) if a[1] == "S"]
    if len(s_idx) >= 3 and r.random() < 0.3:
        i = s_idx[-1]                      # another thread schedules while >= 2 events are queued: may hit a sort
        agenda[i] = (agenda[i][0], "K") + tuple(agenda[i][2:])
    ops = []
    for _ in range(r.randint(1, 12)):
        x = r.random()
        if x < 0.25:
            ops.append(("d", r.choice([0, 0, 1, 2, 7])))
        elif x < 0.29:
            ops.append(("x",))       # the application leaves the context and enters it again
        else:
            ops.append(("r", r.choice([None, 0, 0, 1, 3, 3, 10, 10])))
    return dict(thr=thr, wake=int(wake), npipes=npipes, agenda=agenda, ops=ops)


def corpus():
    e = "€".encode().hex()
    return [
        # D22 (fixed 07d34d9): a scheduled callback fired during a blocked request; stale/unbound `when`
        dict(thr=8, wake=1, npipes=0, agenda=[(1, "S", 0, 0), (2, "A", "61")], ops=[("r", 5), ("r", 0), ("r", 0)], tag="corpus"),
        dict(thr=8, wake=1, npipes=0, agenda=[(0, "S", 5, 0), (2, "G", 28), (3, "S", 3, 1)],
             ops=[("d", 0), ("r", 10), ("r", 0), ("r", 0)], tag="corpus"),
        # D38 (fixed bd1d910): a scheduled callback from another thread while the request sorts two queued events: with a
        # Python-level sort key the append lands inside list.sort -> ValueError and the event is lost (SpyList)
        dict(thr=8, wake=1, npipes=0, agenda=[(0, "S", 5, 0), (0, "S", 3, 1), (1, "K", 4, 2)],
             ops=[("d", 0), ("r", 0), ("d", 7), ("r", 0), ("r", 0), ("r", 0), ("r", 0)], tag="corpus"),
        dict(thr=8, wake=1, npipes=0, agenda=[(0, "S", 9, 0), (0, "S", 9, 1), (2, "A", "61"), (3, "K", 1, 2)],
             ops=[("d", 0), ("r", 5), ("r", 5), ("d", 9), ("r", 0), ("r", 0), ("r", 0)], tag="corpus"),
        # type-ahead: bytes the tty has received before the context is (re-)entered must still come back (seeded C08-r5m1:
        # tty.setcbreak without TCSANOW = TCSAFLUSH discards them)
        dict(thr=8, wake=1, npipes=0, agenda=[(0, "A", "6162")], ops=[("d", 0), ("x",), ("r", 0), ("r", 0), ("r", 0)], tag="corpus"),
        dict(thr=8, wake=1, npipes=0, agenda=[(0, "A", "61"), (3, "A", "e282ac")],
             ops=[("d", 0), ("r", 0), ("d", 3), ("x",), ("x",), ("r", 0), ("r", 0)], tag="corpus"),
        # a scheduled callback of another thread parked in its event constructor while a request sorts the queue (seeded
        # C08-r5m2: `queued_scheduled_events = sorted(...)` rebinds the attribute, the parked callback appends to the orphan)
        dict(thr=8, wake=1, npipes=0, agenda=[(0, "S", 5, 0), (0, "P", 3, 1), (2, "Q", 3, 1)],
             ops=[("d", 0), ("r", 0), ("d", 2), ("d", 7), ("r", 0), ("r", 0), ("r", 0)], tag="corpus"),
        dict(thr=8, wake=1, npipes=0, agenda=[(0, "S", 9, 0), (1, "P", 2, 1), (3, "Q", 2, 1)],
             ops=[("r", 2), ("r", 2), ("d", 9), ("r", 0), ("r", 0), ("r", 0)], tag="corpus"),
        dict(thr=8, wake=1, npipes=1, agenda=[(0, "E", 0), (0, "V", 0, 1), (1, "F", 0), (1, "X", 0, 1), (2, "Y", 0), (2, "W", 0)],
             ops=[("d", 0), ("r", 0), ("r", 5), ("r", 5), ("r", 0)], tag="corpus"),
        # D12 (C03's finding) seen from C08: Esc then a non-ASCII character available together
        dict(thr=8, wake=1, npipes=0, agenda=[(0, "A", "1bc3a9")], ops=[("d", 0), ("r", 0), ("r", 0), ("r", 0)], tag="D12"),
        # D35: ill-formed UTF-8 in mid-stream: c3 then 'A' - the valid 'A' is lost with it
        dict(thr=8, wake=1, npipes=0, agenda=[(0, "A", "c341")], ops=[("d", 0), ("r", 0), ("r", 0), ("r", 0)], tag="D35"),
        dict(thr=8, wake=1, npipes=0, agenda=[(0, "A", "e28241")], ops=[("d", 0), ("r", 0), ("r", 0), ("r", 0)], tag="D35"),
        dict(thr=0, wake=1, npipes=0, agenda=[(0, "A", "6162f09f984163")], ops=[("d", 0), ("r", 0), ("r", 0), ("r", 0)], tag="D35"),
        # D15 witness (also the Lean witness theorem C08_D15_witness)
        dict(thr=8, wake=1, npipes=0, agenda=[(0, "A", e[:4]), (1, "A", e[4:])], ops=[("r", None), ("r", None), ("r", 0)], tag="D15"),
        # D15 inside a paste: the whole paste is lost
        dict(thr=8, wake=1, npipes=0, agenda=[(0, "A", (b"abcdefghij" + "€".encode()[:2]).hex()), (3, "A", e[4:])],
             ops=[("r", None), ("r", None), ("r", 0)], tag="D15"),
        # D14: equal schedule times
        dict(thr=8, wake=1, npipes=0, agenda=[(0, "S", 0, 0), (0, "S", 0, 1)], ops=[("d", 1), ("r", 0), ("r", 0), ("r", 0)]),
        # D16: two event-less wake-ups during a 10-tick wait
        dict(thr=8, wake=1, npipes=1, agenda=[(0, "X", 0, 0), (3, "Y", 0), (3, "W", 0)], ops=[("d", 0), ("r", 10), ("r", 10)]),
        dict(thr=8, wake=1, npipes=1, agenda=[(0, "X", 0, 0), (0, "X", 0, 1), (3, "Y", 0), (6, "Y", 0), (6, "W", 0), (6, "W", 0)],
             ops=[("d", 0), ("r", 0), ("r", 0), ("r", 10)]),
        # a thread-safe callback stepped through its os.write DURING a blocked request (tsA, tsB, tsC as separate agenda
        # items): the request must come back with the event as soon as the write lands.  (seeded mutant "write before
        # append": the request wakes on the pipe, finds nothing, blocks again and times out with the event stranded)
        dict(thr=8, wake=1, npipes=1, agenda=[(1, "X", 0, 0), (2, "Y", 0), (3, "W", 0)], ops=[("r", 10), ("r", 0)], tag="corpus"),
        dict(thr=8, wake=1, npipes=1, agenda=[(1, "X", 0, 0), (2, "Y", 0), (3, "W", 0)], ops=[("r", None), ("r", 0)], tag="corpus"),
        # SIGINT during a blocked request / before it
        dict(thr=8, wake=1, npipes=0, agenda=[(2, "I")], ops=[("r", 5), ("r", 5)]),
        dict(thr=8, wake=1, npipes=0, agenda=[(0, "I")], ops=[("d", 0), ("r", 5), ("r", 5)]),
        dict(thr=8, wake=1, npipes=0, agenda=[(2, "G", 28)], ops=[("r", 5)]),
    ]


def boundary_cases(r):
    """bursts of every boundary size x threshold x content kind, read by one request, then drained"""
    cases = []
    kinds = [lambda n: b"a" * n,
             lambda n: ("€" * (n // 3 + 1)).encode()[:n],
             lambda n: (b"\x1b[A" * (n // 3 + 1))[:n],
             lambda n: ("😀".encode() * (n // 4 + 1))[:n],
             lambda n: (rand_stream(r, n + 8) + b'zzzzzzzz')[:n]]
    # escape sequences / multi-byte characters straddling every offset around READ_SIZE inside one big burst
    R = cinput.READ_SIZE
    for unit in (b"\x1b[A", b"\x1b[15~", "\u20ac".encode(), "\U0001f600".encode()):
        for off in range(R - len(unit) - 1, R + 2):
            data = b"a" * off + unit * 3 + b"z" * 20
            cases.append(dict(thr=8, wake=1, npipes=0, agenda=[(0, "A", data.hex())],
                              ops=[("d", 0), ("r", 0), ("r", 0), ("r", 0)], tag="boundary-straddle"))
    for thr in thresholds():
        for n in sizes(thr):
            for ki, k in enumerate(kinds):
                data = k(n)
                cases.append(dict(thr=thr, wake=1, npipes=0, agenda=[(0, "A", data.hex())],
                                  ops=[("d", 0), ("r", 0), ("r", 0), ("r", 0)], tag="boundary"))
                # same burst followed by its continuation later (split character)
                cases.append(dict(thr=thr, wake=1, npipes=0, agenda=[(0, "A", data.hex()), (2, "A", k(n + 5)[n:].hex())],
                                  ops=[("r", 5), ("r", 5), ("r", 0), ("r", 0)], tag="boundary-split"))
    return cases


def getkey_cases(ctx):
    r = ctx.rng
    cases = []
    for a in range(256):
        for full in (0, 1):
            cases.append((bytes([a]), full))
            for b in (range(256) if (a >= 0x80 or a == 0x1b) else (0x1b, 0x41, 0x80, 0xbf, 0xe2)):
                cases.append((bytes([a, b]), full))
    ks = esc_keys()
    for k in ks:
        for i in range(1, len(k) + 1):
            cases.append((k[:i], 0)); cases.append((k[:i], 1))
        cases.append((k + b"a", 0)); cases.append((k[:-1] + b"\xff", 1))
    for _ in range(6000 if ctx.thorough else 1500):
        n = r.randint(1, 9)
        s = rand_bytes(r, n) if r.random() < 0.7 else bytes(r.choice([0x1b, 0x5b, 0x4f, 0x31, 0x3b, 0x7e, 0xe2, 0x82, 0xac, 0xf0, 0x9f, 0x41, 0xc3, 0xed, 0xa0, 0xf4, 0x90]) for _ in range(n))
        cases.append((s, r.randint(0, 1)))
    return cases


def getkey_impl(c):
    s, full = c
    try:
        k = cevents.get_key([s[i:i + 1] for i in range(len(s))], ENC, keynames=cevents.Keynames.BYTES, full=bool(full))
    except Exception as e:  # noqa: BLE001
        return wire.exc_kind(e)
    return "ok n" if k is None else "ok k:" + hx(k)


# ------------------------------------------------------------------------------------------------


# ------------------------------------------------------------------------------------------------
# real OS: pty, select, wake-up fd, threads, signals (feeds only the oracle: not replayable)
# ------------------------------------------------------------------------------------------------

class _FdStream:
    def __init__(self, fd):
        self.fd = fd

    def fileno(self):
        return self.fd


class _Alarm(BaseException):
    pass


def _guarded(seconds, fn):
    """hard timeout for a scenario running in the main thread"""
    def on_alarm(signum, frame):
        raise _Alarm()
    old = real_signal.signal(real_signal.SIGALRM, on_alarm)
    real_signal.alarm(seconds)
    try:
        return fn()
    except _Alarm:
        return ["scenario did not finish within %d s (a request blocked although input was pending?)" % seconds]
    finally:
        real_signal.alarm(0)
        real_signal.signal(real_signal.SIGALRM, old)


def real_mixed(seed, sigint=True, in_thread=False):
    """bytes from a writer thread, thread-safe events from another thread, a plain and a scheduled event, one real SIGINT;
    every request goes through Input.send (ReplacedSigIntHandler, real select, real wake-up fd).  -> list of problems"""
    import random
    rnd = random.Random(seed)
    problems = []
    m, sl = real_os.openpty()
    chunks = [bytes(rnd.choice(b"abcdefghij") for _ in range(rnd.randint(1, 3))) for _ in range(rnd.randint(3, 6))]
    chunks.insert(rnd.randrange(len(chunks) + 1), bytes(rnd.choice(b"klmnopqrst") for _ in range(rnd.randint(12, 30))))   # a paste
    n_ts = rnd.randint(2, 5)
    want_bytes = b"".join(chunks)
    got_bytes, got_ts, got_q, got_s, got_sig, pastes = bytearray(), [], [], [], 0, 0

    def body():
        nonlocal got_sig, pastes
        inp = cinput.Input(in_stream=_FdStream(sl), keynames="bytes", sigint_event=sigint and not in_thread)
        with inp:
            ts_cb = inp.threadsafe_event_trigger(lambda id: mk_ev(id, "i0"))
            q_cb = inp.event_trigger(lambda id: mk_ev(id, "q0"))
            s_cb = inp.scheduled_event_trigger(lambda when: SEv(when, 7))
            q_cb(id=100)
            when = real_time.time() + 0.03
            s_cb(when)

            def writer():
                for c in chunks:
                    real_os.write(m, c)
                    real_time.sleep(rnd.choice([0.0, 0.002, 0.01]))

            def trigger():
                for i in range(n_ts):
                    ts_cb(id=i)
                    real_time.sleep(rnd.choice([0.0, 0.003, 0.01]))

            def killer():
                real_time.sleep(0.02)
                real_os.kill(real_os.getpid(), real_signal.SIGINT)
            threads = [threading.Thread(target=writer), threading.Thread(target=trigger)]
            if sigint and not in_thread:
                threads.append(threading.Thread(target=killer))
            first = next(inp)            # Input.__next__: blocks until the first thing arrives (the queued plain event)
            results = [first]
            for t in threads:
                t.start()
            deadline = real_time.time() + 4.0
            try:
                while real_time.time() < deadline:
                    done = (bytes(got_bytes) == want_bytes and len(got_ts) == n_ts and got_q and got_s
                            and (got_sig or not (sigint and not in_thread)))
                    try:
                        r = results.pop(0) if results else inp.send(0.05)
                    except Exception as e:  # noqa: BLE001
                        problems.append("request raised %s: %s" % (type(e).__name__, e))
                        break
                    now = real_time.time()
                    if r is None:
                        if done:
                            break
                        continue
                    if isinstance(r, bytes):
                        got_bytes.extend(r)
                    elif is_paste(r):
                        pastes += 1
                        for k in r.events:
                            got_bytes.extend(k)
                    elif isinstance(r, SEv):
                        got_s.append(r.id)
                        if now < r.when:
                            problems.append("scheduled event returned %.4f s before its time" % (r.when - now))
                    elif isinstance(r, EVS):
                        (got_ts if r.kind == "i0" else got_q).append(r.id)
                    elif isinstance(r, cevents.SigIntEvent):
                        got_sig += 1
                    else:
                        problems.append("unknown value %r" % (r,))
            finally:
                for t in threads:      # inside the context: a late SIGINT still meets the Input's handler
                    t.join(5)
        if bytes(got_bytes) != want_bytes:
            problems.append("bytes written %r, keypresses returned %r" % (want_bytes, bytes(got_bytes)))
        if got_ts != list(range(n_ts)):
            problems.append("thread-safe events triggered %r, returned %r" % (list(range(n_ts)), got_ts))
        if got_q != [100]:
            problems.append("event_trigger event returned %r times" % (got_q,))
        if got_s != [7]:
            problems.append("scheduled event returned %r" % (got_s,))
        if sigint and not in_thread and got_sig != 1:
            problems.append("one SIGINT delivered, %d SigIntEvents returned" % got_sig)
        return problems
    try:
        if in_thread:
            box = []
            th = threading.Thread(target=lambda: box.append(body()), daemon=True)
            th.start()
            th.join(10)
            return box[0] if box else ["scenario in a non-main thread did not finish within 10 s"]
        return _guarded(10, body)
    except KeyboardInterrupt:
        return ["KeyboardInterrupt escaped although sigint_event=True"]
    finally:
        for fd in (m, sl):
            try:
                real_os.close(fd)
            except OSError:
                pass


def real_keyboard_interrupt():
    """sigint_event=False: a real SIGINT while send() is blocked in select raises KeyboardInterrupt; nothing is lost"""
    m, sl = real_os.openpty()

    def body():
        problems = []
        inp = cinput.Input(in_stream=_FdStream(sl), keynames="bytes", sigint_event=False)
        with inp:
            th = threading.Timer(0.03, lambda: real_os.kill(real_os.getpid(), real_signal.SIGINT))
            th.start()
            try:
                r = inp.send(1.0)
                problems.append("send returned %r instead of raising KeyboardInterrupt" % (r,))
            except KeyboardInterrupt:
                pass
            finally:
                try:
                    th.join(2)
                except KeyboardInterrupt:
                    pass
            real_os.write(m, b"xy")
            got = [inp.send(0.5), inp.send(0.5), inp.send(0)]
            if got != [b"x", b"y", None]:
                problems.append("after the KeyboardInterrupt: wrote b'xy', requests returned %r" % (got,))
        return problems
    try:
        return _guarded(10, body)
    finally:
        real_os.close(m)
        real_os.close(sl)


def real_eof():
    """end of file on the stream (a pipe whose writer closed): os.read returns b'' - the request returns None at once"""
    r, w = real_os.pipe()
    try:
        inp = cinput.Input(in_stream=_FdStream(r), keynames="bytes")
        real_os.write(w, b"ab")
        real_os.close(w)
        t0 = real_time.time()
        got = [inp.send(0.5), inp.send(0.5), inp.send(0.5), inp.send(0.5)]
        problems = []
        if got != [b"a", b"b", None, None]:
            problems.append("pipe with b'ab' then EOF: requests returned %r" % (got,))
        if real_time.time() - t0 > 0.4:
            problems.append("requests at EOF waited")
        return problems
    finally:
        real_os.close(r)


def real_typeahead():
    """bytes the tty received BEFORE the context is entered, and between two `with` blocks, come back (a TCSAFLUSH on entry
    would discard them)"""
    m, sl = real_os.openpty()

    def body():
        problems, got = [], []
        inp = cinput.Input(in_stream=_FdStream(sl), keynames="bytes")
        real_os.write(m, b"ab")
        with inp:
            got += [inp.send(0.3), inp.send(0.3), inp.send(0)]
        real_os.write(m, b"cd")
        with inp:
            got += [inp.send(0.3), inp.send(0.3), inp.send(0)]
        real_os.write(m, b"e")
        with cinput.Input(in_stream=_FdStream(sl), keynames="bytes", sigint_event=True, disable_terminal_start_stop=True) as inp2:
            got += [inp2.send(0.3), inp2.send(0)]
        if got != [b"a", b"b", None, b"c", b"d", None, b"e", None]:
            problems.append("typed ab before the first `with`, cd before the second, e before a third: requests returned %r" % (got,))
        return problems
    try:
        return _guarded(10, body)
    finally:
        real_os.close(m)
        real_os.close(sl)


def real_thread_change():
    """ONE Input used in the main thread, then entered again in a WORKER thread with a byte pending: the worker's request must
    return that byte (D44: a stale wake-up descriptor left over from the main-thread use made select fail with EBADF for
    ever - the request never returned although a byte was deliverable)"""
    m, sl = real_os.openpty()

    def body():
        problems = []
        inp = cinput.Input(in_stream=_FdStream(sl), keynames="bytes")
        with inp:
            real_os.write(m, b"a")
            first = inp.send(0.5)
        if first != b"a":
            problems.append("main-thread use: wrote b'a', request returned %r" % (first,))
        real_os.write(m, b"b")                    # pending when the worker enters the context
        box = []

        def work():
            try:
                with inp:
                    box.append(inp.send(1.0))
            except BaseException as e:  # noqa: BLE001
                box.append(e)
        th = threading.Thread(target=work, daemon=True)
        th.start()
        th.join(3.0)                              # per-call time budget
        if th.is_alive():
            problems.append("a request in a worker-thread context (same Input used in the main thread before) did not return "
                            "within 3 s although a byte was pending")
            for name in ("wakeup_read_fd", "wakeup_write_fd"):      # un-stick the spinning request so the run can go on
                try:
                    setattr(inp, name, None)
                except Exception:  # noqa: BLE001
                    pass
            th.join(3.0)
        elif box != [b"b"]:
            problems.append("worker-thread use after a main-thread use: wrote b'b', request gave %r" % (box,))
        return problems
    try:
        return _guarded(15, body)
    finally:
        real_os.close(m)
        real_os.close(sl)


def real_checks(ctx):
    n = 20 if ctx.thorough else 3
    scen = [("mixed sigint_event=True seed %d" % i, lambda i=i: real_mixed(ctx.seed * 1000 + i)) for i in range(n)]
    scen += [("mixed in a non-main thread seed %d" % i, lambda i=i: real_mixed(ctx.seed * 1000 + 500 + i, in_thread=True))
             for i in range(max(1, n // 4))]
    scen += [("KeyboardInterrupt during a blocked request", real_keyboard_interrupt), ("EOF", real_eof),
             ("type-ahead before entering the context", real_typeahead),
             ("one Input: main thread, then a worker thread with a byte pending", real_thread_change)]
    for name, fn in scen:
        try:
            probs = fn()
        except Exception as e:  # noqa: BLE001
            probs = ["scenario raised %s: %s" % (type(e).__name__, e)]
        case = dict(real_os_scenario=name)
        ctx.count(case, nontrivial=True, tag="real-os")
        for w in probs:
            ctx.violation("real OS (%s): %s" % (name, w), case, None)

def footprint(c, what):
    return None


def mk_cases(ctx):
    r = ctx.rng
    cases = corpus() + boundary_cases(r)
    ctx.exhaustive.append("corpus + boundary bursts (sizes x thresholds x 5 content kinds x {whole, split}): %d scripts" % len(cases))
    n = 12000 if ctx.thorough else 2500
    cases += [rand_case(r) for _ in range(n)]
    return cases


def canon_returned(reply):
    """'<tokens> | u=.. .. c=<clock> a=..' -> (tokens, clock): what the property speaks about"""
    if " | " not in reply:
        return reply
    head, state = reply.split(" | ", 1)
    f = dict(x.split("=", 1) for x in state.split())
    return head + " @" + f.get("c", "?")


def held_bytes(reply):
    if " | " not in reply:
        return None
    f = dict(x.split("=", 1) for x in reply.split(" | ", 1)[1].split())
    return None if "?" in (f.get("u"), f.get("o")) else (f.get("u"), f.get("o"))


def run_cases(ctx, cases, tie=True):
    install()
    try:
        if tie:
            gk = getkey_cases(ctx)
            ctx.tie("C08/getkey", gk, lambda c: "getkey %s %d" % (hx(c[0]), c[1]), getkey_impl)
            outs = [impl(c) for c in cases]
            cache = {id(c): o for c, o in zip(cases, outs)}
            # property level: the values the requests returned, in order, and when the script ended
            ctx.tie("C08/insim", cases, line, lambda c: cache[id(c)], canon_returned, canon_returned)
            # representation level: additionally the Input's internal queues / the fake OS' counters line up with the model
            ctx.tie("C08/insim-state", cases, line, lambda c: cache[id(c)], level="representation")
            import lib
            try:
                model = lib.run_driver([line(c) for c in cases])
            except lib.InfraError:
                model = outs
            # a known finding may not excuse a case on which model and code disagree about what was returned or about
            # which bytes are still held
            disagree = [canon_returned(m) != canon_returned(o) or (held_bytes(o) is not None and held_bytes(m) != held_bytes(o))
                        for m, o in zip(model, outs)]
        else:
            outs = [impl(c) for c in cases]
            disagree = [False] * len(cases)
        for c, o, dis in zip(cases, outs, disagree):
            # where model and code disagree on a case, a known finding may not excuse it: judge it without footprints
            probs = oracle(c, no_footprints=dis)
            head = o.split(" | ")[0].split(" ")
            nontriv = any(tok not in ("n", "B", "") for tok in head)
            ctx.count(c, nontrivial=nontriv, tag=c.get("tag", "random"))
            for tok in head:
                ctx.dist["out:" + tok.split(":")[0]] += 1
            for what, fp in probs:
                ctx.violation(what, c, fp)
    finally:
        uninstall()


def check(ctx):
    run_cases(ctx, mk_cases(ctx))
    for what in sorted(UNINSTRUMENTED):
        ctx.note("not instrumented (judged through the values the requests return): " + what)
    real_checks(ctx)        # fakes are uninstalled here: real select / os / time / Nonblocking
    # the witness of the open finding must still fail on the real code (else the finding is stale)
    install()
    try:
        w = oracle([c for c in corpus() if c.get("tag") == "D15"][0])
    finally:
        uninstall()
    if not any(fp == "D15" for _, fp in w):
        ctx.note("STALE: the D15 witness history no longer loses bytes on the real code")


def search(ctx):
    if ctx.thorough:
        return
    ctx.thorough = True
    run_cases(ctx, [rand_case(ctx.rng) for _ in range(12000)], tie=False)


def replay(payload):
    c = payload["case"]
    c["agenda"] = [tuple(a) for a in c["agenda"]]
    c["ops"] = [tuple(o) for o in c["ops"]]
    install()
    try:
        return dict(case=c, line=line(c), implementation=impl(c), oracle=oracle(c))
    finally:
        uninstall()
