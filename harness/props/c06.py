"""C06 - indexing, slicing, +, * and join act like str and carry formatting along."""
import itertools
import wire
from wire import mk_fmt, cells
from props.common import layouts, chunks_for, reply_fmt, guarded, canon_cells, canon_eff_cells, eff_cells, PALETTE, api_pool

PROP = "C06"
MODULES = ["Curtsies.Properties.C06"]
SOURCES = {"curtsies/formatstring.py": ["FmtStr.__getitem__", "normalize_slice", "FmtStr.__add__", "FmtStr.__radd__", "FmtStr.__mul__", "FmtStr.join", "FmtStr.__len__", "FmtStr.s", "FmtStr.__init__", "Chunk.__init__", "fmtstr", "FmtStr.from_str"]}
RULE = ("exhaustive: every run layout (0..3 runs, run lengths >=0, total <=5 quick / <=6 thorough, distinct characters, "
        "run i formatted with palette entry i) x every slice (a,b) in ([-len-2,len+2] u {None})^2 and every int index in "
        "[-len-2,len+2]; + on all ordered pairs of a 14-value pool with FmtStr and plain str on either side; * with counts "
        "-1..3; join of every list of <=3 items from a 6-item pool for 4 separators, plus join with plain-str items that contain ESC[ (finding D27), reflected repetition n*f, slices with a step; plus seeded random longer cases. "
        "non-trivial = distinct (operation, operands) whose result is not the empty string or that raises")
ASSUMPTIONS = ["slice steps are not supported by the library (NotImplementedError) and are outside the statement (compared only by the representation-level tie, which is not a verdict)",
               "f + str / str + f do not parse the str (Chunk(other)); join converts str items with fmtstr(s), which parses escape sequences: "
               "for str items containing ESC[ the property is false of the code (open finding D27, reported as KNOWN-FINDING)"]
LEVEL_NOTE = ("slicing, indexing, +, *, n*f and join over FmtStr items are proved for all inputs (C06_slice, C06_index, C06_add*, C06_mul, C06_rmul, C06_join); "
              "join with plain-str items is proved for items free of ESC[ (C06_join_items_partial, through C17_plain); for items containing ESC[ the full statement "
              "C06_join_items_full_statement is refuted by C06_D27_witness (open finding D27). Trusted: Lean kernel, the model of __getitem__/normalize_slice/__add__/__mul__/join "
              "(tied per run at run level, not only per character), Spec/PySlice (Python slicing semantics), harness codec.")


def py_slice_cells(cs, a, b):
    return cs[slice(a, b)]


def mk_cases(ctx):
    maxlen = 6 if ctx.thorough else 5
    cases = []
    for lens in layouts(maxlen, 3):
        ch = chunks_for(lens)
        n = sum(lens)
        bounds = list(range(-n - 2, n + 3)) + [None]
        for a, b in itertools.product(bounds, bounds):
            cases.append(dict(op="slice", f=ch, a=a, b=b))
        for i in range(-n - 2, n + 3):
            cases.append(dict(op="int", f=ch, i=i))
    ctx.exhaustive.append("slices/indices over all layouts total<=%d runs<=3: %d cases" % (maxlen, len(cases)))
    pool = [chunks_for(l, shift=s) for l, s in [((), 0), ((0,), 0), ((1,), 1), ((2,), 2), ((1, 1), 0), ((0, 2), 1),
                                                 ((2, 0, 1), 2), ((1, 2), 3)]]
    # plain-str operands of + include escape sequences: `f + s` / `s + f` wrap the str verbatim (no parsing), so its
    # characters - ESC, '[', digits, 'm' - all appear, unformatted (join is the operation that parses: D27)
    strs = ["", "x", "xy", "x\ny", " ", "\t", "\x1b[31mx\x1b[39m", "\x1b[32mgo", "a\x1b[0mb", "\x1b[5;9Hx", "\x1b[999mx", "\x1b", "\x9b31mx", "\x1b[1;31m"]
    for f, g in itertools.product(pool, pool):
        cases.append(dict(op="add", f=f, g=g))
    for f, s in itertools.product(pool, strs):
        cases.append(dict(op="addstr", f=f, s=s))
        cases.append(dict(op="raddstr", f=f, s=s))
    for f in pool:
        for n in (-1, 0, 1, 2, 3):
            cases.append(dict(op="mul", f=f, n=n))
            cases.append(dict(op="rmul", f=f, n=n))
        cases.append(dict(op="step", f=f, a=0, b=None))
        cases.append(dict(op="step", f=f, a=None, b=2))
    items = [("f", pool[2]), ("f", pool[4]), ("s", "x"), ("s", ""), ("f", pool[0]), ("f", pool[6])]
    for sep in (pool[0], pool[3], pool[4], pool[1]):
        for k in range(0, 4):
            for combo in itertools.product(items, repeat=k):
                cases.append(dict(op="join", sep=sep, items=list(combo)))
    # join with plain-str items containing escape sequences (finding D27): rare but present every run
    esc_items = ["\x1b[31mx\x1b[39m", "\x1b[31m", "a\x1b[0mb", "\x1b[5;9Hx", "\x1b[999mx", "\x1b[1;31mxy"]
    for sep in (pool[0], pool[3]):
        for e in esc_items:
            cases.append(dict(op="join", sep=sep, items=[("s", "a"), ("s", e)]))
            cases.append(dict(op="join", sep=sep, items=[("s", e), ("f", pool[2])]))
    # seeded random operands of every operation: layouts of up to 6 runs, larger repeat counts, longer item lists
    # ("every pair of operands for +; every non-negative repeat count; every list of str/FmtStr items")
    r = ctx.rng
    ALPHA = "abcdefghijklmnopqrstuvwxyzABCDEFGHIJKLMNOPQRSTUVWXYZ0123456789 \n"

    def rand_f(maxruns=6, maxlen=4):
        lens = tuple(r.randint(0, maxlen) for _ in range(r.randint(0, maxruns)))
        return chunks_for(lens, alphabet=ALPHA, shift=r.randint(0, 6))

    def rand_s():
        return "".join(r.choice(ALPHA) for _ in range(r.randint(0, 5)))
    # sizes beyond 256 (small-int cache, 8-bit limits) and layouts with REPEATED equal runs (list.index / == on runs)
    big = chunks_for((130, 0, 127, 3), alphabet=ALPHA, shift=1)          # 260 characters
    rep = [("ab", {"fg": 34}), ("-", {"fg": 31}), ("ab", {"fg": 34}), ("-", {"fg": 31}), ("ab", {"fg": 34})]
    for f in (big, rep):
        n = sum(len(t) for t, _ in f)
        bs = sorted({0, 1, 2, 3, 5, 127, 128, 129, 130, 131, 254, 255, 256, 257, 258, 259, n - 1, n, n + 1, n + 2} | {-k for k in (1, 2, 4, 5, 255, 256, 257, 258, n, n + 1, n + 2)})
        bs = [b for b in bs if -n - 2 <= b <= n + 2]
        for a in bs + [None]:
            for b in bs + [None]:
                cases.append(dict(op="slice", f=f, a=a, b=b))
        for i in bs:
            cases.append(dict(op="int", f=f, i=i))
        cases.append(dict(op="add", f=f, g=rep))
        cases.append(dict(op="add", f=rep, g=f))
        cases.append(dict(op="mul", f=rep, n=60))
        cases.append(dict(op="rmul", f=[("x", {"bold": True})], n=300))
        cases.append(dict(op="join", sep=[(", ", {"fg": 34})], items=[("f", rep)] * 3 + [("s", "ab")] * 2))
    cases.append(dict(op="join", sep=[(",", {})], items=[("s", "i")] * 300))
    for _ in range(1500 if ctx.thorough else 300):
        cases.append(dict(op="add", f=rand_f(), g=rand_f()))
        cases.append(dict(op="addstr", f=rand_f(), s=rand_s()))
        cases.append(dict(op="raddstr", f=rand_f(), s=rand_s()))
        cases.append(dict(op="mul", f=rand_f(3, 3), n=r.randint(0, 9)))
        cases.append(dict(op="rmul", f=rand_f(3, 3), n=r.randint(0, 9)))
        items = [("f", rand_f(3, 3)) if r.random() < 0.6 else ("s", rand_s()) for _ in range(r.randint(0, 7))]
        cases.append(dict(op="join", sep=rand_f(2, 2), items=items))
    for _ in range(3000 if ctx.thorough else 600):
        lens = tuple(r.randint(0, 6) for _ in range(r.randint(0, 6)))
        ch = chunks_for(lens, alphabet="abcdefghijklmnopqrstuvwxyzABCDEFGHIJKLMNOPQRSTUVWXYZ0123456789", shift=r.randint(0, 6))
        n = sum(lens)
        a = r.choice([None] + list(range(-n - 2, n + 3)))
        b = r.choice([None] + list(range(-n - 2, n + 3)))
        cases.append(dict(op="slice", f=ch, a=a, b=b))
    return cases


def line(c):
    op = c["op"]
    if op == "slice":
        return "getitem %s slice %s %s 0" % (wire.enc_chunks(c["f"]), wire.enc_optint(c["a"]), wire.enc_optint(c["b"]))
    if op == "int":
        return "getitem %s int %d" % (wire.enc_chunks(c["f"]), c["i"])
    if op == "add":
        return "add %s %s" % (wire.enc_chunks(c["f"]), wire.enc_chunks(c["g"]))
    if op in ("addstr", "raddstr"):
        return "%s %s %s" % (op, wire.enc_chunks(c["f"]), wire.enc_tf(c["s"]))
    if op == "mul":
        return "mul %s %d" % (wire.enc_chunks(c["f"]), c["n"])
    if op == "rmul":
        return "rmul %d %s" % (c["n"], wire.enc_chunks(c["f"]))
    if op == "step":
        return "getitem %s slice %s %s 1" % (wire.enc_chunks(c["f"]), wire.enc_optint(c["a"]), wire.enc_optint(c["b"]))
    if op == "join":
        its = ["f:" + wire.enc_chunks(v) if k == "f" else "s:" + wire.enc_text(v) for k, v in c["items"]]
        return " ".join(["joinitems", wire.enc_chunks(c["sep"])] + its)
    raise KeyError(op)


LAST_OPERANDS = []
OBJ = []   # real FmtStr objects built through the public API (cases refer to them by index "obj")
WIDE_TEXTS = ["", "a", "ab", "Ｅ", "aＥ", "é", "́", "x y", "Ｅé", "a\nb", "ｈｉ", "abc"]


def api_built_cases(ctx):
    """operands built by random public-API programs with observations (str/len/.s/.width) interleaved, over texts
    with double-width and combining characters: the value a later operation sees may carry memoised fields"""
    cases = []
    r = ctx.rng
    for _ in range(400 if ctx.thorough else 80):
        pool, _log = api_pool(r, steps=8, texts=WIDE_TEXTS)
        for f in pool:
            try:
                ch = wire.fmt_chunks(f)
                wire.enc_chunks(ch)
            except wire.Unencodable:
                continue
            try:
                f.width   # observe the width first (a cache filled here must not leak into len/indexing)
            except ValueError:
                pass      # text with control characters has no width; everything else still applies
            OBJ.append(f)
            k = len(OBJ) - 1
            n = sum(len(t) for t, _ in ch)
            bounds = [None, 0, 1, -1, -2, n - 1, n, n + 1]
            for a in bounds:
                for b in bounds:
                    cases.append(dict(op="slice", f=ch, obj=k, a=a, b=b))
            for i in (0, -1, n - 1, n, -n, -n - 1):
                cases.append(dict(op="int", f=ch, obj=k, i=i))
            cases.append(dict(op="mul", f=ch, obj=k, n=r.choice((0, 1, 2, 3, 5))))
            cases.append(dict(op="rmul", f=ch, obj=k, n=r.choice((0, 1, 2, 4))))
            cases.append(dict(op="addstr", f=ch, obj=k, s="z"))
            cases.append(dict(op="raddstr", f=ch, obj=k, s="z"))
            cases.append(dict(op="add", f=ch, obj=k, g=chunks_for((1, 2), shift=1)))
            cases.append(dict(op="join", sep=ch, obj=k, items=[("s", "p"), ("f", chunks_for((2,), shift=2)), ("s", "")]))
    return cases


def run_impl(c):
    """the real operation -> FmtStr (or raises); the operand objects are left in LAST_OPERANDS"""
    op = c["op"]
    f = (OBJ[c["obj"]] if "obj" in c else mk_fmt(c["f"])) if "f" in c else None
    del LAST_OPERANDS[:]
    if f is not None:
        LAST_OPERANDS.append((f, c["f"]))
    if op == "slice":
        return f[c["a"]:c["b"]]
    if op == "int":
        return f[c["i"]]
    if op == "add":
        g = mk_fmt(c["g"])
        LAST_OPERANDS.append((g, c["g"]))
        return f + g
    if op == "addstr":
        return f + c["s"]
    if op == "raddstr":
        return c["s"] + f
    if op == "mul":
        return f * c["n"]
    if op == "rmul":
        return c["n"] * f
    if op == "step":
        return f[c["a"]:c["b"]:1]
    if op == "join":
        sep = OBJ[c["obj"]] if "obj" in c else mk_fmt(c["sep"])
        LAST_OPERANDS.append((sep, c["sep"]))
        items = []
        for k, v in c["items"]:
            if k == "f":
                o = mk_fmt(v)
                LAST_OPERANDS.append((o, v))
                items.append(o)
            else:
                items.append(v)
        return sep.join(items)
    raise KeyError(op)


def impl(c):
    return guarded(lambda: reply_fmt(run_impl(c)))


def expected(c):
    """the property, stated on per-character lists with Python's own list/str semantics.
    -> ('cells', list) or ('raises', IndexError)"""
    op = c["op"]
    cs = wire.cells_of_chunks(c["f"]) if "f" in c else None
    plain = lambda s: [(ch, ()) for ch in s]
    if op == "slice":
        return ("cells", cs[slice(c["a"], c["b"])])
    if op == "int":
        try:
            return ("cells", [cs[c["i"]]])
        except IndexError:
            return ("raises", "IndexError")
    if op == "add":
        return ("cells", cs + wire.cells_of_chunks(c["g"]))
    if op == "addstr":
        return ("cells", cs + plain(c["s"]))
    if op == "raddstr":
        return ("cells", plain(c["s"]) + cs)
    if op in ("mul", "rmul"):
        return ("cells", cs * c["n"])
    if op == "step":
        return ("outside", None)
    if op == "join":
        sep = wire.cells_of_chunks(c["sep"])
        out = []
        for i, (k, v) in enumerate(c["items"]):
            if i:
                out += sep
            out += wire.cells_of_chunks(v) if k == "f" else plain(v)
        return ("cells", out)
    raise KeyError(op)


def in_quantifier(c):
    """slice steps and negative repeat counts are outside the property's quantifier"""
    return c["op"] != "step" and not (c["op"] in ("mul", "rmul") and c["n"] < 0)


def operands(c):
    out = []
    for k in ("f", "g", "sep"):
        if k in c:
            out.append(c[k])
    return out


def oracle(c):
    """-> None if the implementation satisfies the property on this case, else a description"""
    exp = expected(c)
    if exp[0] == "outside" or not in_quantifier(c):
        return None   # slicing with a step, negative repeat counts: outside the statement (representation tie only)
    try:
        r = run_impl(c)
    except Exception as e:  # noqa: BLE001
        if exp[0] == "raises" and type(e).__name__ == exp[1]:
            return None
        return "%s raised %s, expected %s" % (c["op"], type(e).__name__, exp)
    if exp[0] == "raises":
        return "%s returned %r, str would raise %s" % (c["op"], r, exp[1])
    try:
        got = cells(r)
        if eff_cells(got) != eff_cells(exp[1]):     # formatting = what the character shows: bold=False is "not bold"
            return "%s: characters/formatting differ: got %r expected %r" % (c["op"], got, exp[1])
        text = "".join(ch for ch, _ in exp[1])
        if r.s != text:
            return "%s: .s is %r, str operation gives %r" % (c["op"], r.s, text)
        if len(r) != len(exp[1]):
            return "%s: len() is %d, number of characters is %d" % (c["op"], len(r), len(exp[1]))
        if bool(r) != bool(text):
            return "%s: truth value differs from that of the text" % c["op"]
        if r.s != text or len(r) != len(exp[1]) or eff_cells(cells(r)) != eff_cells(exp[1]):
            return "%s: a second observation of the result differs from the first" % c["op"]
        for o, spec in LAST_OPERANDS:
            want = wire.cells_of_chunks(spec)
            if eff_cells(cells(o)) != eff_cells(want) or o.s != "".join(ch for ch, _ in want) or len(o) != len(want):
                return "%s: an operand changed (now %r)" % (c["op"], o)
    except Exception as e:  # noqa: BLE001 - observing the result must not raise
        return "%s: observing the result (.s / len / chunks) raised %s: %s" % (c["op"], type(e).__name__, e)
    return None


D27_MODEL = {}   # line -> reply of the Lean model (the D27-explained expectation: fromStr applied to the str items)


def d27_shaped(c):
    return c["op"] == "join" and any(k == "s" and "\x1b[" in v for k, v in c["items"])


def footprint(c, what):
    """D27: join with a plain-str item containing ESC[, where EVERYTHING the real code does is what parsing that item
    with fmtstr(str) explains - judged against the Lean model's `joinItems` (an independent parser, not the tree's own
    fmtstr): same characters with the same effective formatting, and .s / len / truth value / a second observation / unchanged operands all consistent with
    that parsed value. Any other deviation on such an input is an unlisted violation."""
    if not d27_shaped(c):
        return None
    reply = D27_MODEL.get(line(c))
    if reply is None or not reply.startswith("ok "):
        return None
    try:
        want = wire.cells_of_chunks(wire.dec_fmt(reply[3:]))
        r = run_impl(c)
        text = "".join(ch for ch, _ in want)
        ok = (eff_cells(cells(r)) == eff_cells(want) and r.s == text and len(r) == len(want) and bool(r) == bool(text)
              and r.s == text and len(r) == len(want))      # per character, effective formatting; run layout is not judged
        for o, spec in LAST_OPERANDS:
            w2 = wire.cells_of_chunks(spec)
            ok = ok and eff_cells(cells(o)) == eff_cells(w2) and o.s == "".join(ch for ch, _ in w2) and len(o) == len(w2)
        return "D27" if ok else None
    except Exception:  # noqa: BLE001
        return None


def check(ctx):
    cases = mk_cases(ctx)
    cases = cases + api_built_cases(ctx)
    d27 = [c for c in cases if d27_shaped(c)]
    try:
        import lib
        for c, rep in zip(d27, lib.run_driver([line(c) for c in d27])):
            D27_MODEL[line(c)] = rep
    except Exception as e:  # noqa: BLE001 - without the model nothing is attributed to D27
        ctx.note("D27 expectations unavailable: %r" % (e,))
    # property level: per-character view, inputs inside the quantifier (slice steps are outside it)
    ctx.tie("C06/ops", [c for c in cases if in_quantifier(c)], line, impl, canon_eff_cells, canon_eff_cells)
    ctx.tie("C06/ops-raw-attributes", cases, line, impl, canon_cells, canon_cells, level="representation")   # explicit False vs absent key
    # representation level: run structure too (C09/C15/C16 reuse getslice) and the refusal of slice steps; a difference
    # here deepens the search but is no verdict while the per-character tie above holds
    ctx.tie("C06/ops-run-level", cases, line, impl, level="representation")
    for c in cases:
        w = oracle(c)
        e = expected(c)
        ctx.count(c, nontrivial=(e[0] in ("raises", "outside") or len(e[1]) > 0), tag=c["op"])
        if w:
            ctx.violation(w, c, footprint(c, w))


def search(ctx):
    """tie or proof broke: oracle at thorough bounds"""
    if ctx.thorough:
        return
    ctx.thorough = True
    for c in mk_cases(ctx):
        w = oracle(c)
        ctx.count(c, tag="search")
        if w:
            ctx.violation(w, c, footprint(c, w))
            if len(ctx.violations) > 50:
                return


def replay(payload):
    c = payload["case"]
    return dict(case=c, implementation=impl(c), expected=repr(expected(c)), oracle=oracle(c))
