"""C16 - linesplit word-wraps without losing, reordering or restyling words."""
import itertools
import multiprocessing
import wire
from wire import mk_fmt, cells
from props.common import guarded, canon_cells_list, reply_fmt_list
from props.widthenv import (env_fields, text_of, realize, shared_variants, shared_case_fields, pool_size, pool_object,
                            safe_oracle, safe_impl, limit_memory, BIG, HUGE, budgeted, DidNotReturn, over_budget)
from curtsies.formatstring import linesplit

PROP = "C16"
MODULES = ["Curtsies.Properties.C16"]
RULE = ("exhaustive: every string of length <=5 (quick) / <=7 (thorough, sharded over processes) over "
        "{a, b, ' ', TAB, LF} x 4 run layouts (one run; two runs; one run per character with three partially "
        "overlapping attribute sets; four runs incl. an empty one) x columns 1..4, plus FmtStr() without runs and plain "
        "str arguments; LARGE column counts 255..258, 300, 1000, 65537 with words that just fit / just do not fit / are "
        "longer than a line; FmtStr values sharing Chunk objects by identity (f*2, f*3, f+f, join with repeated item/separator, "
        "whole-run slices concatenated; strings <=3) and objects from random public-API programs (common.api_pool); "
        "over-long words with punctuation / digits / CamelCase (all words <=3 over {a,B,1,-,_,/,.,comma,U+00AD,U+2010,U+2011}; "
        "every position of each such sign in words of length 4..8 x every columns < length; random); "
        "seeded random strings of length 6..24 with further Unicode whitespace, columns 1..9; tie-only: "
        "columns 0. non-trivial = distinct case with at least one word")
ASSUMPTIONS = ["columns >= 1 (columns = 0 is a ZeroDivisionError in the library: tie-checked only)",
               "str arguments contain no ESC (fmtstr(str) would parse them; covered by C17)",
               "whitespace = the regex class \\s of the live `re` module (read per run for the code points used)",
               "attribute dicts are well-formed as parse_args leaves them: only the 8 legal keys (fg, bg, bold, dark, italic, "
               "underline, blink, invert), colours fg in 30..37 / bg in 40..47, styles True/False - the model's `Atts` record "
               "cannot represent anything else and the wire codec refuses it (Unencodable -> the run fails, never guesses)"]

LEVEL_NOTE = ("FULL PROOF: C16_full proves the whole statement for every Unicode environment and run layout (words/gaps = maximal "
              "runs of the per-character view, greedy fit rule, chopping into full-length pieces, one joining space carrying "
              "the attributes common to the whole gap), with plain-terms corollaries C16_len, C16_total, C16_wordless, "
              "C16_clean_lines, C16_words_kept. Trusted: Lean kernel + propext/Classical.choice/Quot.sound, the hand-written "
              "model (tied to /repo by the exhaustive per-run correspondence), the wire codec; CPython `re` (`\\s+` = maximal "
              "runs of \\s characters) is modelled, its character class is read live per run. A plain `str` argument is first turned "
              "into a FmtStr by fmtstr(str) (escape parsing = property C17): that path is covered by the correspondence and "
              "the oracle only (op linesplit_str: ESC-free strings, incl. Unicode whitespace), the theorems start from the FmtStr")
ALPHA = ("a", "b", " ", "\t", "\n")
PA = {"fg": 31, "bold": True}
PB = {"fg": 31, "underline": True}
PC = {"bold": True, "bg": 44}
PD = {}
MORE_WS = [" ", "\t", "\n", "\r", "\x0b", "\x0c", "\x1c", "\x1f", "\x85", "\u00a0", "\u2003", "\u3000", "\u200b"]


def layouts_for(s):
    n = len(s)
    h = n // 2
    return [
        [(s, dict(PA))],
        [(s[:h], dict(PA)), (s[h:], dict(PC))],
        [(ch, dict((PA, PB, PC)[i % 3])) for i, ch in enumerate(s)],
        [(s[:1], dict(PB)), ("", dict(PC)), (s[1:max(1, n - 1)], dict(PD)), (s[max(1, n - 1):], dict(PB))],
    ]


def cases_for_string(s):
    out = []
    for ch in layouts_for(s):
        for columns in (1, 2, 3, 4):
            out.append(dict(op="linesplit", f=ch, columns=columns))
    return out


def all_strings(maxlen):
    for n in range(maxlen + 1):
        for tup in itertools.product(ALPHA, repeat=n):
            yield "".join(tup)


def extra_cases(ctx):
    r = ctx.rng
    extra = []
    # LARGE column counts (every columns >= 1): words that just fit / just do not fit / are longer than a line
    for columns in BIG + ((HUGE,) if True else ()):
        reps = (1,) if columns == HUGE and not ctx.thorough else (1, 2)
        for rep in reps:
            texts = ["a" * (columns - 2) + " " + "b",                       # fits exactly: len + 1 + len == columns
                     "a" * (columns - 1) + "\t" + "b",                      # one too long
                     "a" * columns + " b",                                   # full line, next word on its own line
                     "a" * (columns + 1) + " " + "b" * (columns - 2),        # chopped: 1 left over, then a word that fits
                     ("ab " * (columns // 3 + 2)) * rep,                    # many short words across the limit
                     "a" * (2 * columns + 3)]                               # two full pieces and a rest
            for t in texts:
                if columns == HUGE and t.count(" ") > 2:
                    continue      # joining ~22 000 words onto one line is quadratic in the library itself (minutes)
                h = len(t) // 2
                extra.append(dict(op="linesplit", f=[(t, dict(PA))], columns=columns))
                extra.append(dict(op="linesplit", f=[(t[:h], dict(PA)), (t[h:], dict(PC))], columns=columns))
                if columns != HUGE:
                    extra.append(dict(op="linesplit_str", f=[(t, {})], columns=columns))
    for columns in (0, 1, 2, 3, 4):
        extra.append(dict(op="linesplit", f=[], columns=columns))
    for s in all_strings(3):
        for columns in (1, 2, 3):
            extra.append(dict(op="linesplit_str", f=[(s, {})], columns=columns))
        extra.append(dict(op="linesplit", f=[(s, dict(PA))], columns=0))
    # plain-str arguments: longer strings with ASCII and Unicode whitespace (NBSP, IDEOGRAPHIC SPACE, LINE SEPARATOR,
    # NEL, FS/US, ZERO WIDTH SPACE which is NOT whitespace)
    ws_str = [" ", "\t", "\n", "\u00a0", "\u3000", "\u2028", "\u2029", "\x85", "\x1c", "\x1f", "\u202f", "\u200b", "\ufeff"]
    for _ in range(4000 if ctx.thorough else 1200):
        n = r.randint(4, 30)
        s = "".join(r.choice(ws_str) if r.random() < 0.35 else r.choice("abcdé\uff25") for _ in range(n))
        extra.append(dict(op="linesplit_str", f=[(s, {})], columns=r.randint(1, 8)))
    for w in ws_str:
        for s in ("a" + w + "b", w + "ab" + w, "ab" + w + w + "cd" + w + "e", w, "abc" + w + "de fgh" + w + "i"):
            for columns in (1, 2, 3, 5, 7):
                extra.append(dict(op="linesplit_str", f=[(s, {})], columns=columns))
    for s in all_strings(4 if ctx.thorough else 3):
        for ch in layouts_for(s)[:2]:
            for spec in shared_variants(ch, other=[(" ", dict(PC))]):
                fields = shared_case_fields(spec)
                for columns in (1, 2, 3, 5):
                    extra.append(dict(op="linesplit", columns=columns, **fields))
    for _ in range(300 if ctx.thorough else 80):
        seed = r.randrange(1 << 30)
        for i in range(pool_size(seed)):
            extra.append(dict(op="linesplit", f=wire.fmt_chunks(pool_object(seed, i)), pool=[seed, i],
                              columns=r.randint(1, 6)))
    # OVER-LONG WORDS WITH PUNCTUATION: "a word longer than a line is cut into full-length pieces" - wherever hyphens,
    # underscores, slashes, dots, commas, soft/Unicode hyphens, digits or CamelCase boundaries stand (wrapping heuristics key
    # on them); judged by reference_wrap like everything else
    punct = ["-", "_", "/", ".", ",", "\u00ad", "\u2010", "\u2011"]
    walpha = ["a", "B", "1"] + punct
    for n in (1, 2, 3):
        for tup in itertools.product(walpha, repeat=n):
            w = "".join(tup)
            for columns in (1, 2):
                if len(w) > columns:
                    extra.append(dict(op="linesplit", f=[(w, dict(PA))], columns=columns))
                    extra.append(dict(op="linesplit_str", f=[(w + " b", {})], columns=columns))
    for p_ in punct + ["1", "B", "--", "-a-"]:
        for L in range(4, 10 if ctx.thorough else 9):
            for i in range(1, L - len(p_)):
                w = "a" * i + p_ + "b" * (L - i - len(p_))
                for columns in range(2, L):
                    for t in (w, "x " + w + " y"):
                        h = len(t) // 2
                        extra.append(dict(op="linesplit", f=[(t, dict(PA))], columns=columns))
                        extra.append(dict(op="linesplit", f=[(t[:h], dict(PB)), (t[h:], dict(PC))], columns=columns))
    for t, columns in (("heart-eating", 10), ("well-known x", 7), ("home is where the heart-eating mummy is", 10),
                       ("heartEating", 7), ("abc123def", 4), ("a/b/c/d/e", 3), ("snake_case_name", 6), ("3.14159,2.71828", 5),
                       ("co\u00adop\u00aderate", 4), ("non\u2010breaking\u2011hyphen", 6)):
        extra.append(dict(op="linesplit", f=[(t, dict(PA))], columns=columns))
        extra.append(dict(op="linesplit_str", f=[(t, {})], columns=columns))
    palpha = ["a", "b", "C", "D", "1", "2"] + punct
    for _ in range(6000 if ctx.thorough else 1500):
        words = ["".join(r.choice(palpha) if r.random() < 0.4 else r.choice("abcd") for _ in range(r.randint(1, 14)))
                 for _ in range(r.randint(1, 4))]
        s = r.choice(["", " "]) + r.choice([" ", "  ", "\t", "\n"]).join(words)
        n = len(s)
        cuts = sorted(r.randint(0, n) for _ in range(r.randint(0, 3)))
        ch = [(s[i:j], dict(r.choice([PA, PB, PC, PD]))) for i, j in zip([0] + cuts, cuts + [n])]
        extra.append(dict(op="linesplit", f=ch, columns=r.randint(1, 9)))
    alpha = ["a", "b", "c", "\u00e9", "\uff25"] + MORE_WS
    for _ in range(8000 if ctx.thorough else 2000):
        n = r.randint(6, 24)
        s = "".join(r.choice(alpha) if r.random() < 0.5 else r.choice("ab ") for _ in range(n))
        cuts = sorted(r.randint(0, n) for _ in range(r.randint(0, 5)))
        pal = [PA, PB, PC, PD]
        ch = [(s[i:j], dict(r.choice(pal))) for i, j in zip([0] + cuts, cuts + [n])]
        extra.append(dict(op="linesplit", f=ch, columns=r.randint(1, 9)))
    return extra


def line(c):
    return "linesplit %s %s %d" % (env_fields(text_of(c["f"])), wire.enc_chunks(c["f"]), c["columns"])


def _call(c):
    if c["op"] == "linesplit_str":
        return linesplit(text_of(c["f"]), c["columns"])
    return linesplit(realize(c), c["columns"])


def run_impl(c):
    """the real call, with a time budget: the property says linesplit RETURNS lines"""
    return budgeted(lambda: _call(c), sum(len(t) for t, _ in c["f"]), inside=c["columns"] >= 1)


def _impl(c):
    return guarded(lambda: reply_fmt_list(run_impl(c)))


impl = safe_impl(_impl)


# ------------------------------------------------------------------------------------------------ oracle
class Join:
    """the single space that replaces a whitespace run `gap` (list of cells) between two words on a line"""
    def __init__(self, gap):
        self.gap = gap

    def ok(self, cell):
        ch, at = cell
        if ch != " ":
            return False
        kinds = {a for _, a in self.gap}
        if len(kinds) == 1:                      # uniformly formatted whitespace: the same formatting
            return at == next(iter(kinds))
        have = set()
        for a in kinds:
            have |= set(a)
        return set(at) <= have                   # never an attribute none of it had


def reference_wrap(cs, columns):
    """greedy word wrap written from the property text. cs = [(char, atts)].
    -> list of lines, each a list whose entries are cells or Join objects"""
    words, gaps, cur, gap = [], [], [], []
    for cell in cs:
        if cell[0].isspace():
            if cur:
                words.append(cur)
                cur = []
            gap.append(cell)
        else:
            if not cur:
                gaps.append(gap)           # the whitespace before this word (leading whitespace for the first)
                gap = []
            cur.append(cell)
    if cur:
        words.append(cur)
    lines, line_ = [], None
    for k, word in enumerate(words):
        if line_ is not None and len(line_) + 1 + len(word) <= columns:
            line_ = line_ + [Join(gaps[k])] + word           # it fits: stays on the current line
        else:
            if line_ is not None:
                lines.append(line_)
            pieces = [word[i:i + columns] for i in range(0, len(word), columns)]   # full-length pieces
            lines += pieces[:-1]
            line_ = pieces[-1]
    if line_ is not None:
        lines.append(line_)
    return lines


def _oracle(c):
    if c["columns"] < 1:
        return None
    cs = wire.cells_of_chunks(c["f"])
    columns = c["columns"]
    try:
        lines = run_impl(c)
    except DidNotReturn as e:
        return "linesplit did not return within %s s (the unchanged code needs milliseconds)" % e.seconds
    except Exception as e:  # noqa: BLE001
        return "raised %s" % type(e).__name__
    if c["op"] == "linesplit_str":
        cs = [(ch, ()) for ch, _ in cs]
    ref = reference_wrap(cs, columns)
    got = [cells(l) for l in lines]
    for k, (l, g) in enumerate(zip(lines, got)):
        if len(l) > columns or len(g) > columns:
            return "line %d is %d long, limit %d" % (k, len(l), columns)
        if not g:
            return "line %d is empty" % k
        if g[0][0].isspace() or g[-1][0].isspace():
            return "line %d starts or ends with whitespace: %r" % (k, g)
    if len(got) != len(ref):
        return "got %d lines %r, the greedy wrap has %d" % (len(got), got, len(ref))
    for k, (g, rl) in enumerate(zip(got, ref)):
        if len(g) != len(rl):
            return "line %d: got %r, greedy wrap gives %d characters" % (k, g, len(rl))
        for x, y in zip(g, rl):
            if isinstance(y, Join):
                if not y.ok(x):
                    return "line %d: joining space %r does not take its formatting from the whitespace %r" % (k, x, y.gap)
            elif x != y:
                return "line %d: character %r differs from the word character %r" % (k, x, y)
    return None


oracle = safe_oracle(_oracle)


def footprint(c, what):
    return None


def nontrivial(c):
    return any(not ch.isspace() for ch in text_of(c["f"]))


def mixed_join_positions(c):
    """(line index, position) of every joining space that replaces a whitespace run with MIXED formatting: there the
    statement fixes only 'never an attribute none of it had', so the space's exact attributes are not the property's
    business (they are compared at representation level). Positions come from the reference wrap, not from the code."""
    if c["columns"] < 1 or c["op"] == "linesplit_str":
        return []
    out = []
    for k, l in enumerate(reference_wrap(wire.cells_of_chunks(c["f"]), c["columns"])):
        for j, x in enumerate(l):
            if isinstance(x, Join) and len({a for _, a in x.gap}) > 1:
                out.append((k, j))
    return out


def masked_cells_list(reply, mask):
    r = canon_cells_list(reply)
    if isinstance(r, tuple) and r and r[0] == "cellslist":
        lines = [list(l) for l in r[1]]
        for k, j in mask:
            if k < len(lines) and j < len(lines[k]) and lines[k][j][0] == " ":
                lines[k][j] = (" ", "attributes-of-a-mixed-gap")
        return ("cellslist", tuple(tuple(l) for l in lines))
    return r


def tie_lines(ctx, name, cases, masks, impl_fn):
    """property level: exact per-character cells where every inter-word gap used is uniformly formatted; for cases with a
    mixed gap the joining space's attributes are masked on both sides (the oracle still judges them against the statement)
    and the exact comparison is kept at representation level"""
    uniform = [c for c, m in zip(cases, masks) if not m]
    mixed = [c for c, m in zip(cases, masks) if m]
    mm = [m for m in masks if m]
    ctx.tie(name, uniform, line, impl_fn, canon_cells_list, canon_cells_list)
    if mixed:
        ia, ib = iter(mm), iter(mm)
        ctx.tie(name, mixed, line, impl_fn, lambda r: masked_cells_list(r, next(ia)), lambda r: masked_cells_list(r, next(ib)))
        if next(ia, None) is not None or next(ib, None) is not None:
            ctx.note("internal: mask iterators of %s not exhausted" % name)
        ctx.tie(name + "/mixed-gap-exact", mixed, line, impl_fn, canon_cells_list, canon_cells_list, level="representation")
    ctx.dist["cases-with-a-mixed-gap-joined"] += len(mixed)


def _work(strings):
    out = []
    for s in strings:
        for c in cases_for_string(s):
            out.append((impl(c), oracle(c), mixed_join_positions(c)))
    return out


def check(ctx):
    limit_memory()
    maxlen = 7 if ctx.thorough else 5
    strings = list(all_strings(maxlen))
    cases = [c for s in strings for c in cases_for_string(s)]
    ctx.exhaustive.append("C16: %d strings (len<=%d over a,b,space,TAB,LF) x 4 layouts x columns 1..4: %d cases"
                          % (len(strings), maxlen, len(cases)))
    shards = [strings[i:i + (500 if ctx.thorough else 250)] for i in range(0, len(strings), 500 if ctx.thorough else 250)]
    res, done = [], 0
    if ctx.thorough:
        with multiprocessing.Pool(min(16, multiprocessing.cpu_count())) as pool:
            for part in pool.imap(_work, shards):
                res += part
                done += 1
                if over_budget(ctx):
                    pool.terminate()
                    break
    else:
        for shard in shards:
            if over_budget(ctx):
                break
            res += _work(shard)
            done += 1
    if done < len(shards):
        cases = [c for sh in shards[:done] for s_ in sh for c in cases_for_string(s_)]
    pre = {id(c): r[0] for c, r in zip(cases, res)}
    tie_lines(ctx, "C16/linesplit", cases, [r[2] for r in res], lambda c: pre[id(c)])
    for c, (_, w, _m) in zip(cases, res):
        ctx.count(c, nontrivial=nontrivial(c), tag="columns=%d" % c["columns"])
        if w:
            ctx.violation(w, c, footprint(c, w))
    extra = extra_cases(ctx)
    # property level: per-character cells of every line for columns >= 1 (str and FmtStr arguments alike)
    inq = [c for c in extra if c["columns"] >= 1]
    tie_lines(ctx, "C16/extras", inq, [mixed_join_positions(c) for c in inq], impl)
    # representation level: columns < 1 is outside the quantifier (today a ZeroDivisionError; which exception, if any, is
    # not the property's business)
    ctx.tie("C16/outside-quantifier", [c for c in extra if c["columns"] < 1], line, impl, canon_cells_list, canon_cells_list,
            level="representation")
    for c in extra:
        if over_budget(ctx):
            break
        w = oracle(c)
        ctx.count(c, nontrivial=nontrivial(c), tag="extra-" + c["op"])
        if w:
            ctx.violation(w, c, footprint(c, w))


def search(ctx):
    if ctx.thorough:
        return
    ctx.thorough = True
    strings = list(all_strings(7))
    shards = [strings[i:i + 500] for i in range(0, len(strings), 500)]
    with multiprocessing.Pool(min(16, multiprocessing.cpu_count())) as pool:
        for si, part in enumerate(pool.imap(_work, shards)):
            cs = [c for s in shards[si] for c in cases_for_string(s)]
            for c, (_, w, _m) in zip(cs, part):
                ctx.count(c, tag="search")
                if w:
                    ctx.violation(w, c, footprint(c, w))
            if len(ctx.violations) > 50:
                return


def replay(payload):
    c = payload["case"]
    return dict(case=c, implementation=impl(c), oracle=oracle(c))
