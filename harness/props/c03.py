"""C03 - key decoding splits any byte stream losslessly into correctly named keys."""
import itertools
import curtsies.events as ev
from props import keys_common as kc
from props.keys_common import hx, unhx, ENCS, MODES, TABLE_KEYS

PROP = "C03"
MODULES = ["Curtsies.Properties.C03"]
RULE = ("exhaustive walk of the decoder's own decision tree (a node is expanded when the real get_key(node, full=False) "
        "returns None): ascii and latin-1 every node x every next byte; utf-8 every byte at the first two positions "
        "(three in thorough) and everywhere below ESC, boundary alphabets of 18/8/3 bytes below that; every node x "
        "full in {False,True} x the three naming modes. find_key on every table sequence alone, x every next byte "
        "(3 encodings) and x every table sequence; scalar values: boundaries + 20k seeded sample (thorough: all "
        "1 112 064) followed by 6 different continuations, judged under curtsies, curses and bytes naming; bytes 0x80-0xFF as "
        "characters under latin-1, cp1252, iso8859-15, koi8-r, cp437, mac-roman x curtsies/curses naming x full; seeded streams of recognised sequences and characters "
        "and of arbitrary bytes under every encoding and mode, each also through the real find_key closure of "
        "Input._send, and again cut into 2-3 pieces handed over by consecutive unget_bytes() calls with and without send(0) "
        "in between; the other spellings of the three codecs (aliases, case/underscore variants, ANSI_X3.4-1968) on every "
        "single byte and the children of waiting bytes; 9 sequences longer than MAX_KEYPRESS_SIZE (representation level); bursts above the paste threshold ending in each key that is also a prefix of longer sequences; bursts handed over in 2-3 chunks by short reads (chunk boundary at every position inside every non-prefix "
        "table sequence / 5 multi-byte characters); single bursts longer than READ_SIZE through the real "
        "Input object (default paste threshold) with every multi-byte table sequence that is not a prefix and 7 "
        "multi-byte characters at every alignment across offsets READ_SIZE and 2*READ_SIZE. non-trivial = distinct (operation, encoding, mode, full, bytes) with at least 2 bytes or a "
        "non-ASCII byte")
ASSUMPTIONS = ["bytes objects hold values < 256 (the model's List Nat is used on such values only)",
               "encodings are the three the property names: utf-8, ascii, latin-1 - under EVERY spelling CPython resolves to "
               "those codecs (the model is per codec; Input passes whatever locale.getpreferredencoding() reports)",
               "under utf-8 a single-byte 8-bit Meta key whose value is a UTF-8 lead byte (RFC 3629: C2..F4) counts as "
               "recognised only when it ends a read (property text); every other one-byte key is recognised anywhere - for "
               "C0, C1, F5..FD the code disagrees (known finding D43)",
               "READING: 'never merged with what follows unless it is also the beginning of a longer recognised sequence' - "
               "after a key that is itself a KEYMAP_PREFIXES member (ESC, ESC ESC, ESC O, ESC [) has merged with what "
               "follows, which the text licenses, nothing is claimed about the table sequence that followed it (e.g. "
               "1b5b 1b5b41 -> '\\x1b[\\x1b', '[', 'A'); those (u, v) pairs are counted in the distribution under "
               "'table sequence after a key that is also a prefix'",
               "READING: 'reports every character as itself' is judged, per naming mode, for characters whose encoding has no "
               "name in THAT mode's table; under curtsies naming the others (control characters, space, DEL; under latin-1 "
               "all of 0x80-0xFF, 162 of 256 characters in all) are reported under their table name (<Meta-...>), checked "
               "as a table sequence (theorem C03_chars_table_key); under curses naming only the 38 CURSES_NAMES are excepted, "
               "so the latin-1 (cp1252, ...) characters 0x80-0xFF must come back as themselves; bytes naming: the bytes",
               "'asks for more input only while ...' is judged on prefixes of input made of recognised sequences and valid "
               "characters (theorem C03_waits_only_when_growable); on other bytes (e.g. E0 41) the decoder may wait "
               "without a possible completion - outside the property's domain",
               "the isinstance(bytes) TypeError guard of get_key is outside the model (inputs are bytes)"]
LEVEL_NOTE = ("trusted: Lean kernel + propext/Classical.choice/Quot.sound, the hand-written decoder model and Spec/Utf8 (tied to "
              "bytes.decode and the real predicates on every run), extract.py, the wire codec; CPython and the OS are modelled not "
              "verified. The lossless theorems are conditional on the decoder not raising (they speak about calls that return). "
              "READINGS: characters whose encoding is a table key are reported under the table name (162 of 256 under latin-1): "
              "C03_chars carries the hypothesis `hnk`, C03_chars_table_key covers the other half; nothing is claimed about the "
              "table sequence that follows a key which is itself a KEYMAP_PREFIXES member once they have merged. OPEN FINDINGS "
              "whose footprints the theorems exclude by hypothesis and the oracle tags exactly: D12 (prefix member + byte >= 0x80), "
              "D43 (one-byte keys C0, C1, F5..FD under utf-8), D40 (paste_threshold=None: read boundary decoded as buffer end)")
TRUSTED = ["Spec/Utf8.lean: strict UTF-8 as CPython decodes it (tied to bytes.decode on every tree node and every "
           "scalar value sampled; all scalar values in the thorough tier)"]


# --------------------------------------------------------------------------------------------------------------
# cases: tuples (op, enc, mode, full, hex)
# --------------------------------------------------------------------------------------------------------------

def line(c):
    op, enc, mode, full, h = c
    if op == "getkey":
        return "getkey %s %s %d %s" % (enc, mode, full, h)
    return "%s %s %s %s" % (op, enc, mode, h)


def impl(c):
    op, enc, mode, full, h = c
    bs = unhx(h)
    if op == "getkey":
        return kc.impl_getkey(bs, enc, mode, bool(full))
    if op == "findkey":
        return kc.impl_findkey(bs, enc, mode)
    if op == "segment":
        return kc.impl_segment(bs, enc, mode)
    raise KeyError(op)


TREE_CAPS = {"ascii": 60000, "latin1": 60000, "utf8": 250000}       # expected: 11 776 / 11 776 / 45 828 nodes
TREE_CAPS_THOROUGH = {"ascii": 60000, "latin1": 60000, "utf8": 8000000}


def trees(ctx):
    out = {}
    for enc in ENCS:
        fan = kc.fan_full if enc != "utf8" else (kc.fan_utf8_thorough if ctx.thorough else kc.fan_utf8_quick)
        cap = (TREE_CAPS_THOROUGH if ctx.thorough else TREE_CAPS)[enc]
        try:
            nodes, nwait = kc.tree(enc, fan, max_nodes=cap)
        except kc.TreeTooLarge as t:
            ctx.violation("the decoder keeps asking for more input: its decision tree under %s exceeds %d nodes "
                          "(expected %s)" % (enc, t.count, "about a fifth of that"),
                          ("getkey", enc, "curtsies", 0, hx(t.node)), None)
            out[enc] = []
            continue
        out[enc] = nodes
        ctx.exhaustive.append("decision tree %s: %d nodes below %d waiting nodes (x 2 full x 3 modes)" % (enc, len(nodes), nwait + 1))
    return out


def char_bytes(c, enc):
    try:
        return chr(c).encode(ENCS[enc])
    except UnicodeEncodeError:
        return None


CONTS = [b"", b"a", b"\x1b", b"\xc3\xa9", b"\xff", b"\x1b[A"]


def scalars(ctx):
    if ctx.thorough:
        return [c for c in range(0x110000) if not 0xd800 <= c <= 0xdfff]
    s = set(kc.scalar_boundaries())
    r = ctx.rng
    while len(s) < 20000 + 500:
        c = r.choice((r.randrange(0x800), r.randrange(0x10000), r.randrange(0x110000)))
        if not 0xd800 <= c <= 0xdfff:
            s.add(c)
    return sorted(s)


def units_for(enc):
    """recognised sequences and characters for random streams: (units usable anywhere, units usable only last)"""
    anywhere, last = [], []
    for k in TABLE_KEYS:
        if enc == "utf8" and len(k) == 1 and k[0] in kc.LEADS:       # collides with a UTF-8 lead byte (C2..F4)
            last.append(k)
        else:
            anywhere.append(k)
    return anywhere, last


def random_streams(ctx, n):
    r = ctx.rng
    out = []
    chars = {"utf8": lambda: r.choice((r.randrange(0x20, 0x7f), r.randrange(0x80, 0x800), r.randrange(0x800, 0xd800),
                                       r.randrange(0xe000, 0x10000), r.randrange(0x10000, 0x110000))),
             "ascii": lambda: r.randrange(0x80), "latin1": lambda: r.randrange(0x100)}
    for enc in ENCS:
        anywhere, last = units_for(enc)
        for i in range(n):
            us = []
            for _ in range(r.randint(1, 6)):
                if r.random() < 0.5:
                    us.append(r.choice(anywhere))
                else:
                    us.append(char_bytes(chars[enc](), enc))
            if last and r.random() < 0.15:
                us.append(r.choice(last))
            out.append((enc, us, "units"))
        for i in range(n // 2):
            bs = bytes(r.choice((r.randrange(256), r.choice(kc.ALPHA18))) for _ in range(r.randint(1, 10)))
            out.append((enc, [bs], "arbitrary"))
    return out


# --------------------------------------------------------------------------------------------------------------
# the oracle: the property text, evaluated on the real decoder
# --------------------------------------------------------------------------------------------------------------

def is_d12(enc, exc, at):
    """footprint of known finding D12: a KEYMAP_PREFIXES member followed by one byte >= 0x80, ascii or utf-8,
    UnicodeDecodeError"""
    return (enc in ("utf8", "ascii") and isinstance(exc, UnicodeDecodeError) and at is not None and len(at) >= 2
            and bytes(at[:-1]) in ev.KEYMAP_PREFIXES and at[-1] >= 0x80)


def is_d43(enc, cur, exc=None, waits=False, full=False):
    """footprint of known finding D43: utf-8; the bytes the decoder holds start with one of the one-byte keys C0, C1,
    F5..FD (not UTF-8 lead bytes) and another byte follows or is announced; it waits, or raises UnicodeDecodeError
    (find_key: ValueError when the buffer ends while it waits)"""
    if enc != "utf8" or not cur or cur[0] not in kc.D43SET:
        return False
    if waits:
        return len(cur) >= 2 or not full
    return len(cur) >= 2 and isinstance(exc, (UnicodeDecodeError, ValueError))


def unit_ends(seq, enc, at_end_of_read):
    """positions reachable from 0 by whole recognised sequences / validly encoded characters"""
    seq = bytes(seq)
    reach = {0}
    for i in range(len(seq)):
        if i not in reach:
            continue
        for n in range(1, kc.MAXLEN + 1):
            piece = seq[i:i + n]
            if len(piece) < n:
                break
            if piece in kc.TABLE_SET and not (enc == "utf8" and n == 1 and piece[0] in kc.LEADS
                                              and not (at_end_of_read and i + 1 == len(seq))):
                reach.add(i + n)
            if n <= 4:
                try:
                    if len(piece.decode(ENCS[enc])) == 1:
                        reach.add(i + n)
                except UnicodeDecodeError:
                    pass
    return reach


def is_unit_prefix(seq, enc, full):
    """seq can be the beginning (full: the whole) of input made of recognised sequences and valid characters"""
    seq = bytes(seq)
    ends = unit_ends(seq, enc, full)
    if len(seq) in ends:
        return True
    return any(kc.is_table_prefix(seq[i:]) or kc.is_char_prefix(seq[i:], enc) for i in ends if i < len(seq))


def oracle_node(enc, seq, full):
    """one node of the decision tree; -> list of (what, footprint)"""
    bad = []
    try:
        r = kc.real_get_key(seq, enc, "curtsies", full)
    except Exception as e:  # noqa: BLE001
        if is_unit_prefix(seq, enc, full):
            bad.append(("get_key raised %s on the start of input made of recognised sequences and valid characters"
                        % type(e).__name__, "D12" if is_d12(enc, e, list(seq)) else
                        "D43" if isinstance(e, UnicodeDecodeError) and is_d43(enc, list(seq), e) else None))
        return bad
    if r is None and is_unit_prefix(seq, enc, full):
        if not (kc.is_table_prefix(seq) or kc.is_char_prefix(seq, enc)):
            bad.append(("get_key asks for more input although the bytes cannot grow into a recognised sequence or a character",
                        "D43" if is_d43(enc, list(seq), waits=True, full=full) else None))
    if r is None and full and (bytes(seq) in ev.CURTSIES_NAMES or bytes(seq) in ev.CURSES_NAMES):
        bad.append(("a recognised sequence that ends the read is not reported", None))
    return bad


def fk(buf, enc, mode):
    """-> ('ok', result) | ('raise', FindFailure)"""
    try:
        return "ok", kc.find_key(buf, enc, mode)
    except kc.FindFailure as f:
        return "raise", f


def oracle_table(enc, u, rest, rest_is_units, modes=tuple(MODES)):
    """a recognised sequence u arriving whole, followed by rest; -> list of (what, footprint)"""
    bad = []
    longer = kc.is_table_prefix(u)                       # u is also the beginning of a longer recognised sequence
    collide = enc == "utf8" and len(u) == 1 and u[0] in kc.LEADS and rest   # lead-byte-valued (C2..F4) Meta key not ending the read
    if collide:
        return bad
    # proper prefixes: the decoder must wait (more bytes are buffered)
    for i in range(1, len(u)):
        try:
            if kc.real_get_key(u[:i], enc, "curtsies", False) is not None:
                bad.append(("recognised sequence broken up: a proper prefix is reported as a key", None))
        except Exception as e:  # noqa: BLE001
            bad.append(("proper prefix of a recognised sequence raises %s" % type(e).__name__, None))
    for mode in modes:
        st, r = fk(u + rest, enc, mode)
        if st == "raise":
            if (not rest or not longer) or rest_is_units:
                bad.append(("find_key raised %s on a recognised sequence followed by %s" % (
                    type(r.exc).__name__, "nothing" if not rest else "recognised input"),
                    "D12" if is_d12(enc, r.exc, r.at) else
                    "D43" if (len(u) == 1 and rest and is_d43(enc, r.cur, r.exc)) else None))
            continue
        k, consumed, left = r
        if consumed + left != u + rest or not consumed:
            bad.append(("bytes lost, duplicated or reordered", None))
        if not rest or not longer:
            if consumed != u or left != rest:
                bad.append(("recognised sequence arriving whole is %s" % ("merged with what follows" if len(consumed) > len(u) else "broken up"), None))
            elif mode == "curtsies" and u in ev.CURTSIES_NAMES and k != ev.CURTSIES_NAMES[u]:
                bad.append(("recognised sequence not reported under its curtsies table name", None))
            elif mode == "curses" and u in ev.CURSES_NAMES and k != ev.CURSES_NAMES[u]:
                bad.append(("recognised sequence not reported under its curses table name", None))
            elif mode == "bytes" and k != u:
                bad.append(("bytes naming does not return the bytes", None))
        elif not consumed.startswith(u):
            bad.append(("recognised sequence broken up", None))
    return bad


MODE_TABLE = {"curtsies": ev.CURTSIES_NAMES, "curses": ev.CURSES_NAMES}


def oracle_char(enc, c, rest):
    """a validly encoded character is reported as itself under every naming mode in which its encoding has no table
    name (curtsies naming: CURTSIES_NAMES; curses naming: the 38 CURSES_NAMES only - so under latin-1 the characters
    0x80..0xFF, <Meta-..> keys in curtsies naming, are themselves in curses naming); bytes naming: the bytes"""
    bad = []
    bs = char_bytes(c, enc)
    if bs is None:
        return bad
    in_any = bs in ev.CURTSIES_NAMES or bs in ev.CURSES_NAMES
    if in_any and rest and (kc.is_table_prefix(bs) or (enc == "utf8" and len(bs) == 1 and bs[0] >= 0x80)):
        return bad          # a key that is also a prefix may merge with what follows (oracle_table judges those)
    if not in_any:
        for i in range(1, len(bs)):
            try:
                if kc.real_get_key(bs[:i], enc, "curtsies", False) is not None:
                    bad.append(("a character is broken up", None))
            except Exception as e:  # noqa: BLE001
                bad.append(("proper prefix of a character raises %s" % type(e).__name__, None))
    for mode in ("curtsies", "curses", "bytes"):
        if mode != "bytes" and bs in MODE_TABLE[mode]:
            continue        # it has a table name in this naming mode
        want = bs if mode == "bytes" else chr(c)
        st, r = fk(bs + rest, enc, mode)
        if st == "raise":
            bad.append(("find_key raised %s on a character" % type(r.exc).__name__, "D12" if is_d12(enc, r.exc, r.at) else None))
        elif r is None or r[0] != want or r[1] != bs or r[2] != rest:
            bad.append(("a character is not reported as itself under %s naming: %r" % (mode, None if r is None else r[0]), None))
    return bad


SINGLE_BYTE_ENCS = ["latin-1", "cp1252", "iso8859-15", "koi8-r", "cp437", "mac-roman"]   # beyond latin-1: real code only


def oracle_high_byte(a):
    """every single-byte encoding: a byte 0x80..0xFF that decodes to a character and has no table name in the naming
    mode is reported as that character, buffered (full=False) and exhausted (full=True) alike"""
    enc, b, full = a
    bs = bytes([b])
    try:
        ch = bs.decode(enc)
    except UnicodeDecodeError:
        return []
    bad = []
    for mode in ("curtsies", "curses"):
        if bs in MODE_TABLE[mode]:
            continue
        try:
            r = kc.real_get_key(bs, enc, mode, full)
        except Exception as e:  # noqa: BLE001
            r = "raised " + type(e).__name__
        if r != ch:
            bad.append(("under %s, %s naming, full=%s the character %r (byte %02x) is reported as %r, not as itself"
                        % (enc, mode, full, ch, b, r), None))
    return bad


def oracle_stream(enc, units, kind):
    """whole stream: no byte lost, duplicated or reordered; never fails on recognised input"""
    bad = []
    buf = b"".join(units)
    for mode in MODES:
        try:
            ps = kc.segment(buf, enc, mode)
        except kc.FindFailure as f:
            if kind == "units":
                bad.append(("decoding failed with %s on input made of recognised sequences and valid characters"
                            % type(f.exc).__name__, "D12" if is_d12(enc, f.exc, f.at) else
                            "D43" if is_d43(enc, f.cur, f.exc) else None))
            continue
        if b"".join(c for _, c in ps) != buf or any(not c for _, c in ps):
            bad.append(("bytes lost, duplicated or reordered over a whole stream", None))
        if mode == "bytes":
            if not all(isinstance(k, bytes) for k, _ in ps):
                bad.append(("bytes naming returned something that is not bytes", None))
            elif b"".join(k for k, _ in ps) != buf:
                bad.append(("bytes naming over a whole stream does not give the stream back", None))
    return bad


# --------------------------------------------------------------------------------------------------------------

BEFORE = bytes(0x61 + i % 26 for i in range(4096))       # a b c ... : position-dependent filler, none a table key
AFTER = b"0123456"


def burst_case(boundary, k, u):
    """one burst in which `u` starts k bytes before a READ_SIZE boundary (k = 0: right after it; k = len(u): ends at
    it): letters before, u, digits after - different on the two sides, so loss and reordering show"""
    return BEFORE[:boundary - k] + u + AFTER


def burst_expected(enc, boundary, k, u):
    """the expected segmentation, from the tables / the character itself (curtsies naming)"""
    if u == b"xy":
        names = ["x", "y"]          # two plain characters across the boundary: order must survive
    else:
        names = [ev.CURTSIES_NAMES[u] if u in ev.CURTSIES_NAMES else u.decode(ENCS[enc])]
    return [chr(c) for c in BEFORE[:boundary - k]] + names + [chr(c) for c in AFTER]


def d40_expected(buf, enc, mode="curtsies"):
    """what known finding D40 explains, nothing more: each READ_SIZE chunk of the burst decoded on its own with its
    end treated as 'buffer exhausted' (the real get_key driven as find_key does); the first failure ends the run"""
    import curtsies.input as cinput
    out = []
    for lo in range(0, len(buf), cinput.READ_SIZE):
        rest = buf[lo:lo + cinput.READ_SIZE]
        while rest:
            try:
                k, c, rest = kc.find_key(rest, enc, mode)
            except kc.FindFailure as f:
                out.append("RAISED " + type(f.exc).__name__)
                return out
            out.append(k)
    return out


def first_diff(got, exp):
    i = next((j for j, (x, y) in enumerate(zip(got, exp)) if x != y), min(len(got), len(exp)))
    return "around key %d: got %r, expected %r" % (i, got[max(0, i - 1):i + 4], exp[max(0, i - 1):i + 3])


def oracle_burst(a):
    """a recognised sequence / character that arrives whole inside one burst longer than READ_SIZE is one keypress
    under its name, wherever the read boundary falls; nothing lost, duplicated or reordered (bytes naming: the
    keys concatenate to the burst).  -> None | (what, footprint)"""
    enc, pt, boundary, k, u = a
    buf = burst_case(boundary, k, u)
    got = kc.burst_through_input(buf, enc, pt)
    exp = burst_expected(enc, boundary, k, u)
    gotb = kc.burst_through_input(buf, enc, pt, "bytes")
    lossless = all(isinstance(x, bytes) for x in gotb) and b"".join(gotb) == buf
    if got == exp:
        if not lossless:
            return ("bytes naming: the keys of the burst do not concatenate to the burst (loss, duplication or "
                    "reordering): " + first_diff(gotb, d40_expected(buf, enc, "bytes")), None)
        return None
    what = "broken up or misreported at the READ_SIZE boundary: " + first_diff(got, exp)
    if pt is None:
        # known finding D40 - exactly: every chunk decoded on its own, and nothing lost unless that decode raises
        d40 = d40_expected(buf, enc)
        d40b = d40_expected(buf, enc, "bytes")
        if got == d40 and gotb == d40b and (lossless or (d40b and d40b[-1] == "RAISED ValueError")):
            return (what, "D40")
        return ("paste_threshold=None: not even the chunk-wise decoding known finding D40 explains: "
                + first_diff(got, d40), None)
    return (what, None)


FILL = b"abcdefghij"       # 10 plain characters: the first chunk is above the default paste threshold, below READ_SIZE


def oracle_chunks(a):
    """a burst handed over in two or three chunks (short reads, the rest already queued): a sequence / character lying
    across a chunk boundary is still ONE keypress under its name; bytes naming gives the burst back"""
    enc, u, cuts = a
    parts = [u[i:j] for i, j in zip((0,) + cuts, cuts + (len(u),))]
    chunks = [FILL + parts[0]] + parts[1:-1] + [parts[-1] + AFTER]
    name = ev.CURTSIES_NAMES[u] if u in ev.CURTSIES_NAMES else u.decode(ENCS[enc])
    exp = [chr(c) for c in FILL] + [name] + [chr(c) for c in AFTER]
    got = kc.chunks_through_input(chunks, enc)
    if got != exp:
        return "broken up or misreported at a chunk boundary: chunks %r: %s" % ([hx(c) for c in chunks], first_diff(got, exp))
    gotb = kc.chunks_through_input(chunks, enc, mode="bytes")
    if not all(isinstance(x, bytes) for x in gotb) or b"".join(gotb) != b"".join(chunks):
        return "bytes naming: the keys do not concatenate to the burst (chunks %r): %r" % ([hx(c) for c in chunks], gotb[-6:])
    return None


def chunk_items(ctx):
    seqs = [u for u in TABLE_KEYS if len(u) >= 2 and not kc.is_table_prefix(u)]
    chars = ["\u00e9", "\u20ac", "\uffff", "\U0001f600", "\U0010ffff"]
    items = []
    for enc in ENCS:
        units = (seqs if enc == "utf8" or ctx.thorough else seqs[ctx.rng.randrange(5)::5]) + \
                ([c.encode("utf-8") for c in chars] if enc == "utf8" else [])
        for u in units:
            for k in range(1, len(u)):
                items.append((enc, u, (k,)))
            if len(u) >= 3:
                k = ctx.rng.randrange(1, len(u) - 1)
                items.append((enc, u, (k, ctx.rng.randrange(k + 1, len(u)))))
    return items


def oracle_ends_in_prefix_key(a):
    """a burst above the paste threshold whose LAST key is also the beginning of longer sequences (or, under utf-8, a
    Meta byte that is also a lead byte), nothing more arriving: the buffer is exhausted, so it is reported under its name"""
    enc, u, pt = a
    exp = [chr(c) for c in FILL] + [ev.CURTSIES_NAMES[u]]
    got = kc.burst_through_input(FILL + u, enc, pt)
    if got != exp:
        return "paste_threshold=%s: burst %s: %s" % (pt, hx(FILL + u), first_diff(got, exp))
    return None


def ends_in_prefix_items():
    out = []
    for enc in ENCS:
        us = [u for u in TABLE_KEYS if kc.is_table_prefix(u) and u in ev.CURTSIES_NAMES]
        if enc == "utf8":
            us += [bytes([b]) for b in range(0x80, 0x100) if bytes([b]) in ev.CURTSIES_NAMES]
        out += [(enc, u, pt) for u in us for pt in ("default", None)]
    return out


def burst_items(ctx):
    import curtsies.input as cinput
    R = cinput.READ_SIZE
    seqs = [u for u in TABLE_KEYS if len(u) >= 2 and not kc.is_table_prefix(u)]
    chars = {"utf8": ["\u00e9", "\u07ff", "\u20ac", "\ud7ff", "\uffff", "\U0001f600", "\U0010ffff"], "ascii": [], "latin1": []}
    items = []
    for enc in ENCS:
        units = ([u for u in seqs] if enc == "utf8" or ctx.thorough else seqs[ctx.rng.randrange(6)::6]) + \
                [c.encode("utf-8") for c in chars[enc]] + [b"xy"]
        for n, u in enumerate(units):
            for boundary in (R, 2 * R):
                if boundary != R and not ctx.thorough and n % 4 and len(u) < 7 and u[0] == 0x1b:
                    continue
                for k in range(0, len(u) + 1):
                    if k in (0, len(u)) and not ctx.thorough and n % 3 and u[0] == 0x1b:
                        continue
                    items.append((enc, "default", boundary, k, u))
    return items


def outcome(fn):
    try:
        return ("ok", fn())
    except kc.FindFailure as f:
        return ("raises", type(f.exc).__name__)
    except Exception as e:  # noqa: BLE001
        return ("raises", type(e).__name__)


ALIAS_STREAMS = [b"\xe9ab", b"\xffa\x1b[A", b"\x80", b"a\xc3\xa9b", b"\x1b[15~\xa0x", b"\xc3", b"\xe2\x82\xac!", b"\x9bA", b"ab\xfe\xff"]


def alias_work(a):
    """the decoder under another spelling of the same codec: every single byte, the children of the waiting ones
    over the boundary alphabet, a few short streams.  -> (tie cases, [(what, case)])"""
    fam, alias, thorough = a
    cases, bad = [], []
    modes = tuple(MODES) if thorough else ("curtsies",)
    nodes = [(b,) for b in range(256)]
    nodes += [(b, c) for b in range(256) if kc.waits((b,), fam) or kc.waits((b,), alias) for c in kc.ALPHA18]
    for n in nodes:
        for full in (0, 1):
            for mode in modes:
                cases.append(("getkey-alias", fam, alias, mode, full, hx(n)))
            x = outcome(lambda: kc.real_get_key(n, alias, "curtsies", bool(full)))
            y = outcome(lambda: kc.real_get_key(n, fam, "curtsies", bool(full)))
            if x != y:
                bad.append(("under the spelling %r of encoding %s get_key answers %r, under %r it answers %r"
                            % (alias, ENCS[fam], x, ENCS[fam], y), ("getkey-alias", fam, alias, "curtsies", full, hx(n))))
    for st in ALIAS_STREAMS:
        cases.append(("segment-alias", fam, alias, "curtsies", 0, hx(st)))
        x = outcome(lambda: kc.segment(st, alias, "curtsies"))
        y = outcome(lambda: kc.segment(st, fam, "curtsies"))
        if x != y:
            bad.append(("under the spelling %r of encoding %s the stream is decoded as %r, under %r as %r"
                        % (alias, ENCS[fam], x, ENCS[fam], y), ("segment-alias", fam, alias, "curtsies", 0, hx(st))))
    return cases, bad


def alias_line(c):
    op, fam, alias, mode, full, h = c
    return line((op.split("-")[0], fam, mode, full, h))


def alias_impl(c):
    op, fam, alias, mode, full, h = c
    return impl((op.split("-")[0], alias, mode, full, h))


def report(ctx, bads, case):
    for what, fp in bads:
        ctx.violation(what, case, fp)


def nontriv(h):
    return len(h) > 2 or h[:1] in "89abcdef"


def par_tie(ctx, name, cases, procs):
    """ctx.tie with the real code evaluated by forked workers (same cases, same order)"""
    for lo in range(0, len(cases), 250000):
        chunk = cases[lo:lo + 250000]
        it = iter(kc.par_map(impl, chunk, procs))
        ctx.tie(name, chunk, line, lambda c: next(it))


def w_node(a):
    return oracle_node(*a)


def w_table(a):
    return oracle_table(*a)


def w_char(a):
    return oracle_char(*a)


def w_stream(a):
    return oracle_stream(*a)


def w_e2e(a):
    enc, buf, mode = a
    real = kc.e2e_segment(buf, enc, mode)
    rest, mine = bytes(buf), []
    try:
        while rest:
            k, c, rest = kc.find_key(rest, enc, mode)
            mine.append(k)
    except kc.FindFailure as f:
        mine.append(kc.exc_kind(f.exc))
    return None if real == mine else (repr(real), repr(mine))


def w_pieces(a):
    enc, pieces, sends, mode = a
    real = kc.e2e_pieces(pieces, sends, enc, mode)
    ref = kc.reference_pieces(pieces, sends, enc, mode)
    if real == ref:
        return None
    return "the stream arrived in %d pieces (unget_bytes; send(0) calls in between: %r): Input returned %r, the pieces in arrival order decode to %r" % (
        len(pieces), list(sends[:-1]), real[:8], ref[:8])


def split_cases(ctx, streams):
    """every stream cut into 2-3 pieces at seeded positions (also inside sequences and characters), once without and
    once with send(0) calls between the pieces"""
    r = ctx.rng
    out = []
    fixed = [("utf8", [b"a\x1b[1;", b"5C"]), ("utf8", [b"\x1b", b"[", b"A"]), ("utf8", [b"x\xe2", b"\x82\xacy"]),
             ("ascii", [b"ab", b"\xffc"]), ("latin1", [b"\x1bO", b"Pq"]), ("utf8", [b"abc", b"def", b"ghi"])]
    for enc, units, kind in streams:
        buf = b"".join(units)
        if len(buf) < 2:
            continue
        cuts = sorted(set(r.randrange(1, len(buf)) for _ in range(r.choice((1, 2)))))
        fixed.append((enc, [buf[i:j] for i, j in zip([0] + cuts, cuts + [len(buf)])]))
    for enc, pieces in fixed:
        n = len(pieces)
        out.append((enc, pieces, (0,) * n, "curtsies"))
        out.append((enc, pieces, tuple(r.choice((1, 1, 2, 5)) for _ in range(n)), r.choice(("curtsies", "curses", "bytes"))))
    return out


def check(ctx, search=False):
    procs = 16 if ctx.thorough else 8
    tr = trees(ctx)
    # ---- tie 1 + node oracle: the decision tree ------------------------------------------------------------
    for enc, nodes in tr.items():
        cases = [("getkey", enc, mode, full, hx(n)) for n in nodes for full in (0, 1) for mode in MODES]
        if not search:
            par_tie(ctx, "C03/getkey-tree-" + enc, cases, procs)
        for c in cases:
            ctx.count(c, nontrivial=nontriv(c[4]), tag="getkey-" + enc)
        items = [(enc, bytes(n), full) for n in nodes for full in (False, True)]
        for it, b in zip(items, kc.par_map(w_node, items, procs)):
            if b:
                report(ctx, b, ("getkey", it[0], "curtsies", int(it[2]), hx(it[1])))
    # ---- tie 0: the trusted UTF-8 spec and the two predicates directly against CPython / the real functions ---------
    if not search:
        B8 = [0x7f, 0x80, 0x8f, 0x90, 0x9f, 0xa0, 0xbf, 0xc0]
        B4 = [0x7f, 0x80, 0xbf, 0xc0]
        strs = [bytes([a]) for a in range(256)] + [bytes([a, b]) for a in range(256) for b in range(256)]
        for lead in (0xe0, 0xe1, 0xec, 0xed, 0xee, 0xef, 0xf0, 0xf1, 0xf3, 0xf4, 0xf5, 0xc2, 0xdf):
            for b1 in B8:
                for b2 in B4:
                    strs.append(bytes([lead, b1, b2]))
                    for b3 in B4:
                        strs.append(bytes([lead, b1, b2, b3]))
        strs += [b"", b"ab\xc3\xa9c", b"\xe2\x82\xac\xe2\x82", b"a\xf0\x9f\x98\x80b", b"\xed\x9f\xbf\xee\x80\x80", b"\xf4\x8f\xbf\xbf\x41"]
        spec = [("decode", "utf8", hx(x)) for x in strs] + [("unfinished", "utf8", hx(x)) for x in strs if x]
        short = strs[:256] + strs[256::97]
        for enc in ("ascii", "latin1"):
            spec += [("decode", enc, hx(x)) for x in short] + [("unfinished", enc, hx(x)) for x in short]
        spec += [("decodable", enc, hx(x)) for enc in ENCS for x in short]

        def spec_impl(c):
            op, enc, h = c
            x = unhx(h)
            if op == "decode":
                try:
                    return "ok " + kc.cps(x.decode(ENCS[enc]))
                except UnicodeDecodeError:
                    return "E:UnicodeDecodeError"
            if op == "decodable":
                return "ok %d" % ev.decodable(x, ENCS[enc])
            return "ok %d" % ev.could_be_unfinished_char(x, ENCS[enc])
        fmt = lambda c: "%s %s %s" % c
        # Spec/Utf8 against CPython's codecs: does not involve /repo
        ctx.tie("C03/utf8-spec-vs-cpython", [c for c in spec if c[0] == "decode"], fmt, spec_impl, impl=False)
        # the two helper predicates in isolation: stricter than the property (get_key's answers are tied above) and
        # dependent on module-level helpers a refactor may inline - representation level, skipped when they are gone
        if callable(getattr(ev, "decodable", None)) and callable(getattr(ev, "could_be_unfinished_char", None)):
            ctx.tie("C03/predicates", [c for c in spec if c[0] != "decode"], fmt, spec_impl, level="representation")
        else:
            ctx.note("events.decodable / could_be_unfinished_char no longer exist: observed through get_key only")
        for c in spec[::50]:
            ctx.count(c, nontrivial=True, tag="spec-" + c[0])
        ctx.exhaustive.append("bytes.decode / decodable / could_be_unfinished_char against Spec/Utf8 + model: all 1- and 2-byte "
                              "strings and %d structured 3/4-byte boundaries under utf-8, samples under ascii/latin-1: %d lines"
                              % (len(strs) - 65792, len(spec)))
    # ---- tie 1a: every other spelling of the three codecs (Input passes locale.getpreferredencoding()) -----------------
    spell = kc.alias_spellings()
    if not ctx.thorough:
        keep = {"ANSI_X3.4-1968", "646", "us", "U8", "cp65001", "utf_8", "UTF-8", "L1", "ISO-8859-1", "iso_8859_1", "ASCII", "LATIN1",
                "utf8", "UTF8", "latin1", "iso-8859-1"}     # + the canonical 'utf-8', 'ascii', 'latin-1' of the main runs
        assert keep <= {x[1] for x in spell}, keep - {x[1] for x in spell}
        rest = [x for x in spell if x[1] not in keep]
        spell = [x for x in spell if x[1] in keep] + rest[ctx.rng.randrange(4)::4]
    work = [(fam, alias, ctx.thorough) for fam, alias in spell]
    acases = []
    for (fam, alias, _), (cs, bad) in zip(work, kc.par_map(alias_work, work, procs, chunksize=1)):
        acases += cs
        for what, case in bad:
            ctx.violation(what, case, None)
    if not search:
        for lo in range(0, len(acases), 250000):
            chunk = acases[lo:lo + 250000]
            it = iter(kc.par_map(alias_impl, chunk, procs))
            ctx.tie("C03/encoding-aliases", chunk, alias_line, lambda c: next(it))
    for c in acases:
        ctx.count(c, nontrivial=nontriv(c[5]), tag="alias-" + c[1])
    ctx.exhaustive.append("encoding spellings: %d of the %d names CPython resolves to ascii / utf-8 / latin-1 (aliases of "
                          "encodings.aliases, case and hyphen/underscore variants, the C-locale name ANSI_X3.4-1968): every single "
                          "byte x full, children of waiting bytes over 18 boundary bytes, 9 short streams; compared with the "
                          "canonical spelling on the real code and with the model of the codec" % (len(spell), len(kc.alias_spellings())))
    # ---- tie 1b: sequences longer than MAX_KEYPRESS_SIZE (get_key's ValueError guard) ---------------------------
    M = ev.MAX_KEYPRESS_SIZE
    longs = [b"a" * (M + 1), b"a" * (M + 2), b"\x1b[1;10" + b"A" * (M - 5), b"\x1b" * (M + 1), b"\xe2\x82\xac" * 3,
             b"\xff" * (M + 1), bytes(range(0x41, 0x41 + M + 2)), b"\x1b[1;10A"[:M] + b"~", b"\xf0\x9f\x98\x80" * 2 + b"\x80"]
    assert all(len(x) > M for x in longs)
    cases = [("getkey", enc, mode, full, hx(x)) for x in longs for enc in ENCS for mode in MODES for full in (0, 1)]
    if not search:
        # outside the quantifier ("up to the maximum keypress length"): representation level
        ctx.tie("C03/getkey-too-long", cases, line, impl, level="representation")
    for c in cases:
        ctx.count(c, nontrivial=True, tag="getkey-longer-than-max")
    # ---- tie 2 + table oracle: every table sequence alone / x every next byte / x table sequences ------------
    ntab = 0
    r = ctx.rng
    for enc in ENCS:
        cases, items = [], []
        single_is_units = {b: 1 in unit_ends(bytes([b]), enc, True) for b in range(256)}
        for u in TABLE_KEYS:
            rests = [(b"", True, tuple(MODES))]
            for b in range(256):
                modes = tuple(MODES) if (ctx.thorough or (enc == "utf8" and b % 4 == 1)) else ("curtsies",)
                rests.append((bytes([b]), single_is_units[b], modes))
            step = 1 if ctx.thorough else (3 if enc == "utf8" else 12)
            rests += [(v, True, ("curtsies",)) for v in TABLE_KEYS[r.randrange(step)::step]]
            for rest, is_units, modes in rests:
                for mode in modes:
                    cases.append(("findkey", enc, mode, 0, hx(u + rest)))
                items.append((enc, u, rest, is_units, modes))
                if len(rest) > 0 and rest in kc.TABLE_SET and kc.is_table_prefix(u):
                    # reading (ASSUMPTIONS): u merges with what follows; nothing is claimed about `rest` then
                    ctx.dist["table sequence after a key that is also a prefix (merge licensed, nothing claimed about it)"] += 1
        ntab += len(items)
        if not search:
            par_tie(ctx, "C03/findkey-table-" + enc, cases, procs)
        for c in cases:
            ctx.count(c, nontrivial=True, tag="findkey-table-" + enc)
        for it, b in zip(items, kc.par_map(w_table, items, procs)):
            if b:
                report(ctx, b, ("findkey", enc, "curtsies", 0, hx(it[1] + it[2])))
    ctx.exhaustive.append("every table sequence (%d) alone, x every next byte, x %s table sequences: %d (sequence, continuation, "
                          "encoding) triples" % (len(TABLE_KEYS), "all" if ctx.thorough else "every 3rd (utf-8) / 12th", ntab))
    # ---- tie 3 + character oracle: scalar values ------------------------------------------------------------
    sc = scalars(ctx)
    ctx.exhaustive.append("scalar values: %d%s" % (len(sc), " (all)" if ctx.thorough else " (boundaries, 0..0x17f, seeded sample)"))
    for lo in range(0, len(sc), 100000):
        cases, items = [], []
        part = sc[lo:lo + 100000]
        for c in part:
            for enc in ENCS:
                bs = char_bytes(c, enc)
                if bs is None:
                    continue
                conts = CONTS if (c < 0x180 or c % 5 == 0) else CONTS[:2]
                for rest in conts:
                    cases.append(("findkey", enc, "curtsies", 0, hx(bs + rest)))
                    items.append((enc, c, rest))
                cases.append(("findkey", enc, "curses", 0, hx(bs)))
                cases.append(("findkey", enc, "bytes", 0, hx(bs + b"a")))
        if not search:
            par_tie(ctx, "C03/findkey-chars", cases, procs)
            ctx.tie("C03/utf8-encode", part, lambda c: "utf8enc %d" % c, lambda c: "ok " + hx(chr(c).encode("utf-8")))
        for c in cases:
            ctx.count(c, nontrivial=True, tag="findkey-chars")
        for it, b in zip(items, kc.par_map(w_char, items, procs)):
            if b:
                report(ctx, b, ("findkey", it[0], "curtsies", 0, hx(char_bytes(it[1], it[0]) + it[2])))
    # ---- single-byte encodings: every high byte that is a character, both naming modes, buffered and exhausted ----------
    items = [(enc, b, full) for enc in SINGLE_BYTE_ENCS for b in range(0x80, 0x100) for full in (False, True)]
    for it, bads in zip(items, map(oracle_high_byte, items)):
        case = ("getkey", it[0], "curses", int(it[2]), "%02x" % it[1])
        ctx.count(case, nontrivial=True, tag="high-byte-character")
        for what, fp in bads:
            ctx.violation(what, case, fp)
    ctx.exhaustive.append("bytes 0x80-0xFF as characters under %s x curtsies/curses naming x full: %d" % (", ".join(SINGLE_BYTE_ENCS), len(items)))
    # ---- tie 4 + stream oracle ------------------------------------------------------------------------------
    streams = random_streams(ctx, 6000 if ctx.thorough else 1200)
    cases = [("segment", enc, mode, 0, hx(b"".join(units))) for enc, units, kind in streams for mode in MODES]
    if not search:
        par_tie(ctx, "C03/segment-streams", cases, procs)
    for c, (enc, units, kind) in zip(cases[::3], streams):
        ctx.count(c, nontrivial=True, tag="stream-" + kind)
    for it, b in zip(streams, kc.par_map(w_stream, streams, procs, chunksize=200)):
        if b:
            report(ctx, b, ("segment", it[0], "curtsies", 0, hx(b"".join(it[1]))))
    # ---- the transcribed find_key loop against the real closure inside Input._send (public unget_bytes + send) ----
    items = [(enc, b"".join(units), mode) for enc, units, kind in streams for mode in MODES]
    res = kc.par_map(w_e2e, items, procs, chunksize=100)
    bad = [(it, d) for it, d in zip(items, res) if d]
    for it, d in bad[:3]:
        ctx.disagreements.append(("C03/e2e-find_key", ("segment", it[0], it[2], 0, hx(it[1])), d[0], d[1]))
    ctx.ties["C03/e2e-find_key"] = dict(compared=len(items), disagreements=len(bad), involves_impl=True, level="property")
    # ---- the same streams arriving in 2-3 pieces (consecutive unget_bytes calls, with / without send(0) in between) ---
    items = split_cases(ctx, streams if ctx.thorough else streams[::2])
    res = kc.par_map(w_pieces, items, procs, chunksize=100)
    for it, w in zip(items, res):
        case = ("pieces", it[0], it[3], list(it[2]), [hx(p) for p in it[1]])
        ctx.count(case, nontrivial=True, tag="pieces-" + ("drained-at-end" if not any(it[2]) else "sends-between"))
        if w:
            ctx.violation("bytes reordered, lost or a sequence broken up across unget_bytes calls: " + w, case, None)
    ctx.exhaustive.append("streams arriving in 2-3 pieces through consecutive unget_bytes() calls: %d schedules" % len(items))
    # ---- bursts longer than READ_SIZE through the REAL Input object (select / os.read / paste loop / find_key) -----
    items = burst_items(ctx)
    nop = [(e, None, b, k, u) for (e, _, b, k, u) in items[::4]]
    allb = items + nop
    res = kc.par_map(oracle_burst, allb, procs, chunksize=20)
    for it, w in zip(allb, res):
        case = ("burst", it[0], "None" if it[1] is None else it[1], it[2], it[3], hx(it[4]))
        ctx.count(case, nontrivial=True, tag="burst-default-threshold" if it[1] == "default" else "burst-no-paste-threshold")
        if w:
            ctx.violation("a recognised sequence / character arriving whole in one burst (paste_threshold=%s) is %s"
                          % (it[1], w[0]), case, w[1])
    ctx.exhaustive.append("bursts through the real Input (one arrival): %d (unit, alignment 0..len, boundary) cases with the "
                          "default paste threshold, every 4th also with paste_threshold=None; curtsies and bytes naming"
                          % len(items))
    # ---- bursts handed over in 2-3 chunks (short reads with more queued), default paste threshold -----------------------
    items = chunk_items(ctx)
    for it, w in zip(items, kc.par_map(oracle_chunks, items, procs, chunksize=50)):
        case = ("chunks", it[0], hx(it[1]), list(it[2]))
        ctx.count(case, nontrivial=True, tag="burst-in-chunks")
        if w:
            ctx.violation("a recognised sequence / character arriving in one burst that the OS hands over in chunks is " + w, case, None)
    ctx.exhaustive.append("bursts handed over in 2-3 chunks (each os.read returns one chunk, first chunk above the paste threshold "
                          "and shorter than READ_SIZE), chunk boundary at every position inside the unit: %d" % len(items))
    # ---- bursts ENDING in a key that is also a prefix of longer sequences (buffer exhausted inside a paste) -----------
    items = ends_in_prefix_items()
    for it, w in zip(items, kc.par_map(oracle_ends_in_prefix_key, items, procs, chunksize=20)):
        case = ("burst-end", it[0], "None" if it[2] is None else it[2], hx(it[1]))
        ctx.count(case, nontrivial=True, tag="burst-ending-in-prefix-key")
        if w:
            ctx.violation("a recognised sequence that ends the burst is not reported under its name: " + w, case, None)
    ctx.exhaustive.append("bursts above the paste threshold ending in every table key that is also a proper prefix of another "
                          "(utf-8: and every one-byte 8-bit key), default threshold and None: %d" % len(items))
    # ---- D12 witness replayed on the real code --------------------------------------------------------------
    for enc in ("utf8", "ascii"):
        try:
            kc.real_get_key(b"\x1b\xff", enc, "curtsies", False)
            ctx.note("known finding D12 is stale: get_key(1b ff, %s) no longer raises" % enc)
        except UnicodeDecodeError:
            pass
    # ---- D43 witness replayed on the real code ----------------------------------------------------------------------
    try:
        if kc.real_get_key(b"\xc0", "utf8", "curtsies", False) is not None:
            ctx.note("known finding D43 is stale: get_key(c0, utf-8, full=False) no longer waits")
        kc.real_get_key(b"\xc0\x41", "utf8", "curtsies", True)
        ctx.note("known finding D43 is stale: get_key(c0 41, utf-8) no longer raises")
    except UnicodeDecodeError:
        pass


def search(ctx):
    if ctx.thorough:
        return
    ctx.thorough = True
    check(ctx, search=True)


def replay(payload):
    c = payload["case"]
    if c[0] in ("getkey-alias", "segment-alias"):
        op, fam, alias, mode, full, h = c
        base = op.split("-")[0]
        return dict(case=c, under_alias=impl((base, alias, mode, full, h)), under_canonical_name=impl((base, fam, mode, full, h)))
    if c[0] == "burst-end":
        _, enc, pt, h = c
        return dict(case=c, oracle=oracle_ends_in_prefix_key((enc, unhx(h), None if pt == "None" else pt)))
    if c[0] == "chunks":
        _, enc, h, cuts = c
        return dict(case=c, oracle=oracle_chunks((enc, unhx(h), tuple(cuts))))
    if c[0] == "pieces":
        _, enc, mode, sends, hs = c
        pieces = [unhx(h) for h in hs]
        return dict(case=c, input_returned=kc.e2e_pieces(pieces, sends, enc, mode),
                    pieces_in_arrival_order_decode_to=kc.reference_pieces(pieces, sends, enc, mode))
    if c[0] == "burst":
        _, enc, pt, boundary, k, h = c
        pt = None if pt == "None" else pt
        u = unhx(h)
        buf = burst_case(boundary, k, u)
        got = kc.burst_through_input(buf, enc, pt)
        return dict(case=c, returned_around_boundary=got[boundary - k - 2:boundary - k + 6],
                    expected=burst_expected(enc, boundary, k, u)[boundary - k - 2:boundary - k + 4],
                    oracle=oracle_burst((enc, pt, boundary, k, u)))
    op, enc, mode, full, h = c
    out = dict(case=c, implementation=impl(tuple(c)), by_naming_mode={m: impl((op, enc, m, full, h)) for m in MODES})
    bs = unhx(h)
    if op == "getkey":
        out["oracle"] = oracle_node(enc, bs, bool(full))
    elif op == "segment":
        out["oracle"] = oracle_stream(enc, [bs], "units")
    else:
        out["oracle"] = [w for u in TABLE_KEYS if bs.startswith(u) for w in oracle_table(enc, u, bs[len(u):], False)]
    return out
