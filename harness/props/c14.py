"""C14 - applying or removing formatting touches exactly the named attributes."""
import itertools
import curtsies.fmtfuncs as ff
from curtsies.formatstring import fmtstr, parse_args, FmtStr
import sgrterm
import wire
from wire import mk_fmt, cells
from props.common import chunks_for, reply_fmt, guarded, canon_cells, PALETTE

PROP = "C14"
MODULES = ["Curtsies.Properties.C14", "Curtsies.Properties.C14Sound"]
RULE = ("spelling pools are DERIVED from the live tables (every name of FG_COLORS/BG_COLORS incl. aliases, every public "
        "callable of fmtfuncs); the eight documented names keep their fixed codes, an alias means the colour the live table "
        "gives and 'on_'+alias the background of the same colour. "
        "exhaustive: every single attribute (8 fg, 8 bg, 6 styles True/False) in every spelling (positional lower/UPPER "
        "case, fg=/bg= name, fg=/bg= number, style=, keyword True/False, each of the fmtfuncs incl. on_dark and plain) and "
        "every pair of attributes of different kinds in every pair of spellings (3 colours per kind quick, 8 thorough) in "
        "one call, plus every ordered pair of single specs nested (second applied to the result of the first, same or "
        "different attribute), over a 4-layout pool (multi-run with pre-set attributes incl. explicit False, empty run, "
        "plain str, no runs); a catalogue of malformed specifications (unknown names/keys, wrong type, out of range, "
        "duplicates, contradictions) through fmtstr, parse_args and the fmtfuncs; copy_with_new_atts / "
        "new_with_atts_removed / copy_with_new_str / shared_atts over layouts x attribute sets; seeded random specs. "
        "specifications applied to plain strs that carry SGR sequences (rendered FmtStrs fed back in: the named attributes "
        "win on every character, = applying to from_str(s), = the model's fromStr then override); shared_atts read again "
        "after the caller scribbled on / cleared the dict returned earlier; "
        "every valid apply/nest/attribute-op case is run twice - on a fresh operand and on one that was rendered, "
        "measured, hashed and compared first - and the result is also judged by what str(result) displays (independent "
        "SGR reader) and by ==/hash/.s/len against a FmtStr freshly built from its runs. "
        "non-trivial = distinct cases that name at least one attribute, raise, or remove/replace something")
ASSUMPTIONS = ["'malformed' in the oracle means malformed under every reasonable reading: unknown names/keys, two different values "
               "for one attribute, wrong types, numbers out of range. Spellings the code merely rejects today (keyword colour "
               "names in another case, 'on_x' as a bg= value, whitespace variants, a repeated mention with the same value, "
               "None as 'not given' (for every attribute and style=), upper-case positional names - the documentation "
               "shows lower-case names only, the code lower-cases them -, case variants of keyword names) are compared with the model at representation level only",
               "texts contain no ESC (a str argument of fmtstr would be parsed for escape sequences; C05/C17)",
               "keyword names are distinct (a repeated keyword is a TypeError at the call site, before parse_args runs)",
               "copy_with_new_str is specified by the statement only for uniformly formatted strings (at least one "
               "character, every character the same dict; empty runs do not count); on other strings only model = code is checked",
               "new_with_atts_removed is called with attribute names among the eight legal ones"]

COLORS = wire.COLORS
STYLES = ("bold", "dark", "italic", "underline", "blink", "invert")
FUNCS = sorted(n for n in dir(ff) if not n.startswith("_") and n != "fmtstr" and callable(getattr(ff, n)))

# ---- Python values in cases are tagged lists so that cases stay JSON-able ---------------------------------
OTHERS = {"list": lambda: [], "tuple": lambda: (31,), "dict": lambda: {}, "object": lambda: object(),
          "bytes": lambda: b"red", "complex": lambda: 31 + 0j, "strlist": lambda: ["red"], "nested": lambda: ([],)}


def S(x):
    return ["s", x]


def V(x):
    """real value -> tagged"""
    if x is None:
        return ["n"]
    if isinstance(x, bool):
        return ["b", x]
    if isinstance(x, int):
        return ["i", x]
    if isinstance(x, float):
        return ["f", x]
    if isinstance(x, str):
        return ["s", x]
    raise TypeError(x)


def O(tag):
    return ["o", tag]


def mkval(t):
    k = t[0]
    if k == "n":
        return None
    if k == "o":
        return OTHERS[t[1]]()
    return t[1]


def enc_val(t):
    k = t[0]
    if k == "s":
        s = t[1]
        return "s:%s:%s:%s" % (wire.enc_text(s), wire.enc_text(s.lower()), wire.enc_text(s[3:].lower()))
    if k == "i":
        return "i:%d" % t[1]
    if k == "b":
        return "b:%d" % (1 if t[1] else 0)
    return k


def enc_pos(pos):
    return ";".join(enc_val(v) for v in pos) or "-"


def enc_kw(kw):
    return ";".join("%s=%s" % (wire.enc_text(k), enc_val(v)) for k, v in kw) or "-"


# ---- spellings: (pos, kw, func, named) -- `named` is what the spelling SAYS, by construction -------------------

import curtsies.termformatconstants as _tc

LIVE_FG, LIVE_BG, LIVE_STYLES = dict(_tc.FG_COLORS), dict(_tc.BG_COLORS), dict(_tc.STYLES)


def colour_names():
    """the eight names the documentation fixes (their codes are fixed HERE: 30+i / 40+i), then every further name
    the live tables offer (aliases such as 'grey'): an alias means the colour whose code the live table gives, and
    'on_'+name must be the background of that SAME colour"""
    out = [(n, 30 + k) for k, n in enumerate(COLORS)]
    for n in list(LIVE_FG) + list(LIVE_BG):
        if n not in [x for x, _ in out]:
            out.append((n, LIVE_FG[n] if n in LIVE_FG else LIVE_BG[n] - 10))
    return out


def accepted_name(x):
    """would the live tables read the positional word x as a colour / on_colour / style?"""
    if not isinstance(x, str):
        return False
    l = x.lower()
    return l in LIVE_FG or (l.startswith("on_") and x[3:].lower() in LIVE_BG) or l in LIVE_STYLES


def spellings_fg(name, num):
    n = {"fg": num}
    out = [dict(pos=[S(name)], kw=[], func=None, named=n, sp="pos"),
           dict(pos=[S(name.upper())], kw=[], func=None, named=n, sp="POS", unfixed=True),
           dict(pos=[S(name.capitalize())], kw=[], func=None, named=n, sp="Pos", unfixed=True),
           dict(pos=[], kw=[["fg", S(name)]], func=None, named=n, sp="kwname"),
           dict(pos=[], kw=[["fg", V(num)]], func=None, named=n, sp="kwnum"),
           dict(pos=[], kw=[["style", S(name)]], func=None, named=n, sp="style=")]
    if name in FUNCS or name in COLORS:
        out.append(dict(pos=[], kw=[], func=name, named=n, sp="func"))
    return out


def spellings_bg(name, fgnum):
    num = fgnum + 10
    n = {"bg": num}
    out = [dict(pos=[S("on_" + name)], kw=[], func=None, named=n, sp="pos"),
           dict(pos=[S("ON_" + name.upper())], kw=[], func=None, named=n, sp="POS", unfixed=True),
           dict(pos=[S("on_" + name.upper())], kw=[], func=None, named=n, sp="Pos", unfixed=True),
           dict(pos=[], kw=[["bg", S(name)]], func=None, named=n, sp="kwname"),
           dict(pos=[], kw=[["bg", V(num)]], func=None, named=n, sp="kwnum"),
           dict(pos=[], kw=[["style", S("on_" + name)]], func=None, named=n, sp="style=")]
    if "on_" + name in FUNCS or name in COLORS:
        out.append(dict(pos=[], kw=[], func="on_" + name, named=n, sp="func"))
    if name == "black":
        out.append(dict(pos=[], kw=[], func="on_dark", named=n, sp="func-alias"))
    return out


def spellings_style(s, val):
    n = {s: val}
    if not val:
        return [dict(pos=[], kw=[[s, V(False)]], func=None, named=n, sp="kwFalse")]
    return [dict(pos=[S(s)], kw=[], func=None, named=n, sp="pos"),
            dict(pos=[S(s.upper())], kw=[], func=None, named=n, sp="POS", unfixed=True),
            dict(pos=[], kw=[[s, V(True)]], func=None, named=n, sp="kwTrue"),
            dict(pos=[], kw=[["style", S(s)]], func=None, named=n, sp="style="),
            dict(pos=[], kw=[], func=s, named=n, sp="func"),
            # a repeated mention with the SAME value: accepted for styles today, rejected for colours - not fixed by the statement
            dict(pos=[S(s), S(s)], kw=[], func=None, named=n, sp="pos-twice", unfixed=True),
            dict(pos=[S(s)], kw=[[s, V(True)]], func=None, named=n, sp="pos+kwTrue", unfixed=True)]


def combine(a, b):
    """two spellings in one call, or None when they cannot be written together"""
    if a["func"] and b["func"]:
        return None
    kws = [k for k, _ in a["kw"]] + [k for k, _ in b["kw"]]
    if len(set(kws)) != len(kws):
        return None                                   # two style= keywords
    if (a["func"] or b["func"]) and "style" in kws:
        return None                                   # the call's style= replaces the helper's own (functools.partial)
    return dict(pos=a["pos"] + b["pos"], kw=a["kw"] + b["kw"], func=a["func"] or b["func"],
                named=dict(a["named"], **b["named"]), sp=a["sp"] + "&" + b["sp"])


LAYOUTS = [
    ("multi", [("ab", {"fg": 32, "bold": True}), ("", {"bg": 41}), ("c\n", {"bg": 44, "underline": False}), ("d", {})]),
    ("one", [("xyz", {"invert": True, "fg": 37, "bg": 40})]),
    ("str", "pq r"),
    ("none", []),
]


def singles():
    out = []
    for name, num in colour_names():
        out += spellings_fg(name, num)
        out += spellings_bg(name, num)
    for s in STYLES:
        out += spellings_style(s, True) + spellings_style(s, False)
    out.append(dict(pos=[], kw=[], func="plain", named={}, sp="func"))
    out.append(dict(pos=[], kw=[], func=None, named={}, sp="nothing"))
    return out


# UNAMBIGUOUSLY malformed (under any reasonable reading of "unknown, contradictory or mis-typed specifications"): the
# oracle demands ValueError.  Inputs the current code merely happens to reject - other spellings of a known name, a
# repeated mention with the SAME value, None as "not given" - are in REJECTED_SPELLINGS below and only tied to the model
# at representation level (a maintainer could start accepting them without breaking the property).
MALFORMED_POS = [[S(x)] for x in ("rad", "reddish", "on_", "on_rad", "", "fg", "bg", "style", "bright_red", "on_bold",
                                   "on_on_red", "red,blue", "True", "on_31", "nope")] + \
                [[V(5)], [V(True)], [V(31)], [V(1.0)], [O("bytes")], [O("strlist")], [O("tuple")]]
MALFORMED_KW = [[["fg", v]] for v in (S("rad"), S("reddish"), S(""), V(29), V(38), V(39), V(40), V(49), V(90), V(97), V(0), V(-31), V(131), V(99),
                                      V(True), V(False), V(31.0), V(3.5), O("list"), O("tuple"), O("bytes"), O("dict"),
                                      O("object"), O("complex"), O("nested"))] + \
               [[["fg", S(x)]] for x in ("bold", "dark", "italic", "underline", "blink", "invert", "on_red", "on_blue", "on_gray",
                                         "plain", "fg", "style")] + \
               [[["bg", S(x)]] for x in ("bold", "underline", "invert", "on_on_red", "plain", "bg")] + \
               [[["bg", v]] for v in (S("rad"), V(31), V(30), V(48), V(39), V(49), V(100), V(4), V(True), V(41.0),
                                      O("dict"), O("list"), O("object"))] + \
               [[[s, v]] for s, v in (("bold", V(1)), ("bold", V(0)), ("bold", S("maybe")), ("bold", S("bold")),
                                      ("bold", V(1.0)), ("bold", O("list")), ("underline", V(4)), ("invert", S("")),
                                      ("blink", O("object")), ("dark", V(2)))] + \
               [[[k, v]] for k, v in (("color", S("red")), ("foreground", S("red")), ("underlined", V(True)),
                                      ("strike", V(True)), ("bright", V(True)))] + \
               [[["style", v]] for v in (V(5), V(True), S("rad"), O("strlist"), S(""), V(31), V(1.0))]
CONTRADICTIONS = [
    ([S("red"), S("blue")], []), ([S("red")], [["fg", S("blue")]]), ([S("red")], [["fg", V(34)]]),
    ([S("red")], [["style", S("blue")]]), ([S("on_red"), S("on_blue")], []),
    ([S("on_red")], [["bg", S("blue")]]), ([S("bold")], [["bold", V(False)]]), ([], [["style", S("bold")], ["bold", V(False)]]),
    ([], [["bold", V(False)], ["style", S("bold")]]), ([], [["fg", S("red")], ["style", S("blue")]]),
    ([S("bold")], [["bold", V(1)]]), ([S("red"), S("bold"), S("nope")], []), ([S("red")], [["bold", V(True)], ["colour", S("x")]]),
    ([S("Red"), S("on_blue"), S("ON_GREEN")], []), ([S("RED"), S("blue")], []),
    # an upper/title-case style name next to the SAME style keyword False / non-bool: whether the name is read as the style
    # (contradiction) or not at all (unknown name), it must raise - never return a value
    ([S("Bold")], [["bold", V(False)]]), ([S("BOLD")], [["bold", V(False)]]), ([], [["style", S("BOLD")], ["bold", V(False)]]),
    ([S("BOLD")], [["bold", V(0)]]), ([S("Underline")], [["underline", V(False)]]), ([S("Invert")], [["invert", V(None)]]),
    ([S("RED")], [["fg", S("blue")]]), ([S("On_Red")], [["bg", V(44)]]),
]
# malformed calls through a fmtfunc: (func, pos, kw)
MALFORMED_FUNC = [("red", [S("blue")], []), ("red", [], [["fg", S("blue")]]), ("bold", [], [["bold", V(False)]]),
                  ("red", [], [["style", V(5)]]), ("plain", [S("nope")], []), ("plain", [], [["fg", V(True)]]),
                  ("underline", [], [["underline", V(0)]]), ("on_dark", [], [["bg", S("red")]]),
                  ("red", [S("Underline")], [["underline", V(False)]]), ("plain", [S("Bold")], [["bold", V(False)]])]
# rejected today, but not malformed under every reading: (pos, kw) - representation-level tie only, no oracle verdict
REJECTED_SPELLINGS = [(p, []) for p in ([S("onred")], [S("on red")], [S(" red")], [S("red ")], [S("31")], [S("bold ")])] + \
    [([], [[k, v]]) for k, v in (("fg", S("RED")), ("fg", S("Red")), ("fg", S("31")), ("fg", S(" red")),
                                 ("fg", V(None)), ("bg", S("on_red")), ("bg", S("RED")), ("bg", S("ON_BLUE")), ("bg", V(None)),
                                 ("bg", S("44")), ("BOLD", V(True)), ("Fg", S("red")), ("fg ", V(31)), ("on_red", V(True)),
                                 ("red", V(True)), ("style", S("RED ")), ("style", S(" bold")),
                                 # None as "not given": one classification for every attribute and for style=
                                 ("bold", V(None)), ("italic", V(None)), ("underline", V(None)), ("style", V(None)))] + \
    [([V(None)], [])] + \
    [([S("red"), S("red")], []), ([S("red")], [["fg", S("red")]]), ([S("red")], [["fg", V(31)]]), ([S("red")], [["style", S("red")]]),
     ([S("RED"), S("red")], []), ([S("on_red")], [["bg", V(41)]]), ([S("on_red")], [["bg", S("red")]]),
     ([S("on_red"), S("ON_RED")], []), ([S("red")], [["fg", V(None)]]), ([S("bold")], [["bold", V(None)]])]
REJECTED_FUNC = [("red", [], [["fg", V(31)]]), ("on_red", [S("on_red")], []), ("on_dark", [], [["bg", S("black")]]),
                 ("red", [S("RED")], [])]


def mk_cases(ctx):
    cases = []
    sing = singles()
    allsing = sing
    for (ln, lay), sp in itertools.product(LAYOUTS, allsing):
        cases.append(dict(op="apply", lay=ln, f=lay, spec=sp, valid=None if sp.get("unfixed") else True))
    sing = [sp for sp in allsing if not sp.get("unfixed")]     # every combined / nested / random pool: fixed spellings only
    ncol = 8 if ctx.thorough else 3
    keep = lambda sp: all((k not in ("fg", "bg")) or v in ([30, 31, 37, 40, 44, 47][:6] if ncol == 3 else range(100))
                          for k, v in sp["named"].items())
    pool = [s for s in sing if s["named"] and keep(s)]
    nd = 0
    for a, b in itertools.combinations(pool, 2):
        if set(a["named"]) & set(b["named"]):
            continue
        c = combine(a, b)
        if c is None:
            continue
        for ln, lay in (LAYOUTS if ctx.thorough else LAYOUTS[:2]):
            cases.append(dict(op="apply", lay=ln, f=lay, spec=c, valid=True))
            nd += 1
    # triple: fg + bg + two styles in mixed spellings
    for fgs, bgs in itertools.product(spellings_fg("red", 31)[:5], spellings_bg("blue", 34)[:5]):
        c = combine(combine(fgs, bgs), dict(pos=[S("bold")], kw=[["underline", V(False)]], func=None,
                                            named={"bold": True, "underline": False}, sp="mix"))
        cases.append(dict(op="apply", lay="multi", f=LAYOUTS[0][1], spec=c, valid=True))
    # nesting: every ordered pair of single specs (a small colour subset), second applied to the result of the first
    npool = [s for s in sing if all((k not in ("fg", "bg")) or v in (31, 34, 41, 44) for k, v in s["named"].items())
             and s["sp"] in ("pos", "kwnum", "func", "kwFalse", "style=", "kwTrue")]
    nn = 0
    for a, b in itertools.product(npool, npool):
        cases.append(dict(op="nest", lay="multi", f=LAYOUTS[0][1], specs=[a, b], valid=True))
        nn += 1
    covered = {sp["func"] for sp in allsing if sp["func"]}
    for fn in FUNCS:
        if fn not in covered:
            ctx.note("fmtfuncs helper %r is not a colour / on_colour / style name: only compared with the model" % fn)
            cases.append(dict(op="apply", lay="one", f=LAYOUTS[1][1], spec=dict(pos=[], kw=[], func=fn, named=None, sp="unknown-helper"), valid=None))
    ctx.exhaustive.append("single specs: %d x %d layouts; pairs in one call: %d; nested ordered pairs: %d" % (len(sing), len(LAYOUTS), nd, nn))
    # malformed catalogue
    def still_malformed(pos, kw):
        """a word the live tables accept today (a new alias) is no longer an unknown name"""
        if len(pos) == 1 and not kw and pos[0][0] == "s" and accepted_name(pos[0][1]):
            return False
        if not pos and len(kw) == 1 and kw[0][1][0] == "s":
            k, v = kw[0][0], kw[0][1][1]
            if (k == "fg" and v in LIVE_FG) or (k == "bg" and v in LIVE_BG) or (k == "style" and accepted_name(v)):
                return False
        return True
    mal = [(p, []) for p in MALFORMED_POS] + [([], k) for k in MALFORMED_KW] + CONTRADICTIONS
    mal = [m for m in mal if still_malformed(*m)]
    for (pos, kw), (ln, lay) in itertools.product(mal, LAYOUTS[:3]):
        cases.append(dict(op="apply", lay=ln, f=lay, spec=dict(pos=pos, kw=kw, func=None, named=None, sp="malformed"), valid=False))
    for pos, kw in mal:
        cases.append(dict(op="parse", pos=pos, kw=kw, valid=False))
    for fn, pos, kw in MALFORMED_FUNC:
        cases.append(dict(op="apply", lay="one", f=LAYOUTS[1][1], spec=dict(pos=pos, kw=kw, func=fn, named=None, sp="malformed-func"), valid=False))
    # every colour NUMBER that is not a value of the live table (reset codes 39/49, bright 90-107, the other table's range)
    nnum = 0
    for key, live in (("fg", LIVE_FG), ("bg", LIVE_BG)):
        for n in range(-1, 110):
            if n not in live.values():
                cases.append(dict(op="parse", pos=[], kw=[[key, V(n)]], valid=False))
                nnum += 1
    ctx.exhaustive.append("out-of-range colour numbers -1..109 minus the live values, fg and bg: %d" % nnum)
    ctx.exhaustive.append("malformed catalogue: %d specifications x 3 layouts + parse_args directly + %d through fmtfuncs" % (len(mal), len(MALFORMED_FUNC)))
    # spellings the code rejects today without them being malformed: valid=None = no oracle verdict, representation tie
    for pos, kw in REJECTED_SPELLINGS:
        cases.append(dict(op="parse", pos=pos, kw=kw, valid=None))
        cases.append(dict(op="apply", lay="one", f=LAYOUTS[1][1], spec=dict(pos=pos, kw=kw, func=None, named=None, sp="rejected-spelling"), valid=None))
    for fn, pos, kw in REJECTED_FUNC:
        cases.append(dict(op="apply", lay="one", f=LAYOUTS[1][1], spec=dict(pos=pos, kw=kw, func=fn, named=None, sp="rejected-spelling"), valid=None))
    for sp in allsing:
        if sp["func"] is None:
            cases.append(dict(op="parse", pos=sp["pos"], kw=sp["kw"], valid=None if sp.get("unfixed") else True, named=sp["named"]))
    # unicode case mapping: tie only (whether 'blacK' is a known name is CPython's str.lower)
    for s in ("blacK", "on_blacK", "İn_red", "darK", "RED", "on_reḌ"):
        cases.append(dict(op="parse", pos=[S(s)], kw=[], valid=None))
    # attribute operations
    lays = [[], [("", {})], [("", {"fg": 31})], [("ab", {"fg": 31})], [("a", {"fg": 31, "bold": True}), ("b", {"fg": 31, "bold": False})],
            [("a", {"fg": 31, "bg": 44}), ("", {"underline": True}), ("bc", {"fg": 31, "bg": 44, "italic": True})],
            [("", {"fg": 31}), ("a", {"bg": 44})], [("a", {"bg": 44}), ("b", {})], [("ab", {"bold": True, "blink": False}), ("c", {"bold": True, "blink": False})],
            [("a", p) for p in PALETTE[1:4]],
            # runs made only of zero-WIDTH characters are still characters (combining acute, zero-width space)
            [("e", {"fg": 31}), ("\u0301", {"fg": 34})], [("\u200b", {"fg": 31, "bold": True}), ("a", {"bg": 44, "bold": True})],
            [("a", {"fg": 31, "underline": True}), ("\u0301\u200b", {"fg": 31}), ("b", {"fg": 31, "underline": True})],
            [("\u0301", {"bg": 41}), ("", {"fg": 31})],
            [("", {"bold": True}), ("a", {"fg": 31})], [("a", {"fg": 31}), ("", {"bold": True}), ("b", {"fg": 31})]]   # D32 shape
    for f in lays:
        cases.append(dict(op="shared", f=f))
        for a in PALETTE + [{"bold": False}, {"fg": 30, "bg": 47, "bold": True, "dark": False, "italic": True, "underline": False, "blink": True, "invert": False}]:
            cases.append(dict(op="cwna", f=f, atts=a))
        for k in range(0, 3):
            for names in itertools.combinations(wire.SORTED_KEYS, k):
                cases.append(dict(op="nwar", f=f, names=list(names)))
        cases.append(dict(op="nwar", f=f, names=list(wire.SORTED_KEYS)))
        cases.append(dict(op="nwar", f=f, names=["fg", "fg"]))
        # the new text is taken VERBATIM: escape sequences in it are characters, not formatting
        for t in ("", "Z", "new text", "\x1b[1mb", "x\x1b[32mgreen\x1b[39my", "a\x1b[2Jb", "\x1b[38;5;1mq", "a\x1bb", "\x1b",
                  "\x9b31mz", "\x1b[0m", "p\x1b[mq"):
            cases.append(dict(op="cwns", f=f, t=t))
    # a plain STR that already carries SGR sequences (a rendered FmtStr fed back in): the applied attributes win over the
    # ones in the text, on every character, also after a reset inside the text
    rendered = [[("red", {"fg": 31}), (" plain", {})],
                [("a", {"bg": 44, "bold": True}), ("b", {}), ("c", {"fg": 32, "underline": True}), ("d", {"fg": 34})],
                [("x", {"fg": 31, "bg": 41}), ("", {"bold": True}), ("y\n", {"fg": 34, "invert": True, "dark": False}), ("z", {})],
                [("q", {"blink": True}), ("r", {"italic": True, "fg": 37})]]
    spool = [sp for sp in sing if sp["named"] and all((k not in ("fg", "bg")) or v in (31, 34, 41, 44) for k, v in sp["named"].items())]
    ns = 0
    for g in rendered:
        for sp in spool + [dict(pos=[], kw=[], func="plain", named={}, sp="func")]:
            cases.append(dict(op="applystr", g=g, spec=sp, valid=True))
            ns += 1
        for a, b in itertools.combinations([sp for sp in spool if sp["sp"] in ("pos", "kwnum", "kwFalse")], 2):
            if not (set(a["named"]) & set(b["named"])) and combine(a, b):
                cases.append(dict(op="applystr", g=g, spec=combine(a, b), valid=True))
                ns += 1
    ctx.exhaustive.append("specs applied to a plain str carrying SGR sequences (4 rendered strings): %d" % ns)
    for f in lays:
        cases.append(dict(op="shared2", f=f))
    # formatting applied to EMPTY text: one empty run carrying exactly the named attributes, which a later
    # copy_with_new_str keeps and shared_atts reports
    for sp in spool + [c2 for a, b in itertools.combinations([x for x in spool if x["sp"] in ("pos", "kwFalse", "func")], 2)
                       if not (set(a["named"]) & set(b["named"])) for c2 in [combine(a, b)] if c2][:150]:
        for tgt in ("str", "run", "two"):
            cases.append(dict(op="applyempty", tgt=tgt, spec=sp, valid=True))
    # seeded random
    r = ctx.rng
    for _ in range(4000 if ctx.thorough else 600):
        k = r.randint(1, 4)
        sp = None
        for s in r.sample(sing, k):
            if sp is None:
                sp = s
            elif not (set(sp["named"]) & set(s["named"])):
                sp = combine(sp, s) or sp
        lens = tuple(r.randint(0, 3) for _ in range(r.randint(1, 4)))
        kw = list(sp["kw"])
        r.shuffle(kw)
        cases.append(dict(op="apply", lay="rand", f=chunks_for(lens, shift=r.randint(0, 6)), spec=dict(sp, kw=kw), valid=True))
    return cases


# ---- real code ---------------------------------------------------------------------------------------------

def observe(x):
    """look at a FmtStr the way a program does before restyling it (fills every memo the object has)"""
    if isinstance(x, FmtStr):
        str(x), len(x), x.s, hash(x), x == x
        try:
            x.width
        except Exception:  # noqa: BLE001 - width of unusual characters is C10's business
            pass
    return x


def real_f(f, obs=False):
    r = f if isinstance(f, str) else mk_fmt(f)
    return observe(r) if obs else r


def model_f(f):
    return wire.enc_chunks([(f, {})]) if isinstance(f, str) else wire.enc_chunks(f)


def call_spec(f, sp):
    pos = [mkval(v) for v in sp["pos"]]
    kw = {k: mkval(v) for k, v in sp["kw"]}
    fn = getattr(ff, sp["func"]) if sp["func"] else fmtstr
    return fn(f, *pos, **kw)


def run_impl(c):
    op = c["op"]
    obs = bool(c.get("observe"))
    if op == "apply":
        return call_spec(real_f(c["f"], obs), c["spec"])
    if op == "nest":
        mid = call_spec(real_f(c["f"], obs), c["specs"][0])
        return call_spec(observe(mid) if obs else mid, c["specs"][1])
    if op == "parse":
        return dict(parse_args(tuple(mkval(v) for v in c["pos"]), {k: mkval(v) for k, v in c["kw"]}))
    if op == "applyempty":
        tgt = {"str": "", "run": mk_fmt([("", {})]), "two": mk_fmt([("", {}), ("", {})])}[c["tgt"]]
        return call_spec(tgt, c["spec"])
    if op == "applystr":
        return call_spec(str(mk_fmt(c["g"])), c["spec"])
    if op == "applystr-named":
        return fmtstr(str(mk_fmt(c["g"])), **c["spec"]["named"])
    f = real_f(c["f"], obs)
    if op == "shared":
        return dict(f.shared_atts)
    if op == "cwna":
        return f.copy_with_new_atts(**c["atts"])
    if op == "nwar":
        return f.new_with_atts_removed(*c["names"])
    if op == "cwns":
        return f.copy_with_new_str(c["t"])
    raise KeyError(op)


def spec_line(f_enc, sp):
    if sp["func"]:
        return "fmtfunc %s %s %s %s" % (sp["func"], f_enc, enc_pos(sp["pos"]), enc_kw(sp["kw"]))
    return "fmtstrapply %s %s %s" % (f_enc, enc_pos(sp["pos"]), enc_kw(sp["kw"]))


def line(c):
    op = c["op"]
    if op == "apply":
        return spec_line(model_f(c["f"]), c["spec"])
    if op == "parse":
        return "parseargs %s %s" % (enc_pos(c["pos"]), enc_kw(c["kw"]))
    if op == "applystr-named":
        a = wire.enc_atts(c["spec"]["named"])
        return "fmtstr %s%s" % (wire.enc_tf(str(mk_fmt(c["g"]))), (" " + a) if a else "")
    if op == "shared":
        return "shared %s" % wire.enc_chunks(c["f"])
    if op == "cwna":
        return "cwnatts %s %s" % (wire.enc_chunks(c["f"]), wire.enc_atts(c["atts"]) or "e")
    if op == "nwar":
        return " ".join(["nwar", wire.enc_chunks(c["f"])] + c["names"])
    if op == "cwns":
        return "cwns %s %s" % (wire.enc_chunks(c["f"]), wire.enc_tf(c["t"]))
    raise KeyError(op)


def impl(c):
    """reply of the real code in the driver's syntax; a result the wire cannot express (an attribute value outside
    the model's domain, e.g. {'fg': 31.0}) is a reply of its own, so the tie disagrees instead of crashing"""
    try:
        if c["op"] in ("parse", "shared"):
            return guarded(lambda: "ok " + wire.enc_atts(run_impl(c)))
        return guarded(lambda: reply_fmt(run_impl(c)))
    except wire.Unencodable as e:
        return "unencodable:" + repr(e)
    except Exception as e:  # noqa: BLE001 - observing the result failed
        return "unobservable:%s:%s" % (type(e).__name__, e)


def canon_eff_cells(reply):
    if reply.startswith("ok "):
        return ("effcells", tuple(wire.eff_cells_of_chunks(wire.dec_fmt(reply[3:]))))
    return reply


def canon_atts(reply):
    if reply.startswith("ok"):
        return ("atts", tuple(sorted(wire.dec_atts(reply[3:]).items())))
    return reply


# ---- the property ------------------------------------------------------------------------------------------

def cells_before(f):
    return [(ch, ()) for ch in f] if isinstance(f, str) else wire.cells_of_chunks(f)


def override(cs, named):
    return [(ch, tuple(sorted(dict(dict(a), **named).items()))) for ch, a in cs]


LEVEL_NOTE = ("PROVED in Lean for all inputs of the model: parse_args returns exactly the dict a declarative reading of the "
              "specification denotes and raises ValueError - nothing else - on every invalid one (C14_sound_complete, "
              "C14_error_kind: every `lower`, all positional and keyword arguments with distinct names); fmtstr/fmtfuncs = "
              "parse then override (C14_fmtstr_denote, C14_fmtfunc_general); override / remove touch exactly the named "
              "attributes on every character and nothing else (C14_apply, C14_override, C14_remove*), order independence for "
              "disjoint attributes; copy_with_new_str on uniformly formatted strings; shared_atts reports exactly the entries "
              "common to all characters (C14_shared, C14_shared_complete); the spelling equivalences for EVERY name of "
              "the live colour tables (aliases included) and the helpers of the live fmtfuncs module (each helper whose name is "
              "an accepted spelling means that spelling; every colour and style has a helper; each is partial(fmtstr, style=..)) "
              "by kernel evaluation over tables regenerated every run. The colour tables are not pinned to a fixed list: the "
              "theorems need them WELL-FORMED only (C14_tables: values are the codes 30..37 / 40..47, each code has a name, "
              "same names in both tables with bg = fg + 10; the six styles are fixed). TIE-ONLY: that the model is what "
              "the code does (per-run correspondence), Python's str.lower (a parameter in Lean; the harness ships the live "
              "values), from_str of a str argument (C05/C17). Trusted: Lean kernel + propext/Classical.choice/Quot.sound, the "
              "hand-written model and `denote`, extract.py, the wire codec; CPython is modelled not verified")


def shown(r, exp):
    """the result judged through what it DISPLAYS and how it compares: str(r) read by the independent SGR reader must
    show every character with exactly the expected effective attributes, and ==, hash, .s, len must be those of a
    FmtStr freshly built from the same runs (nothing stale may be carried over from the operand)"""
    want = [(ch, tuple((k, v) for k, v in a if v is not False)) for ch, a in exp]
    got, final, ctls, mode = sgrterm.display(str(r))
    if got != want or final != () or ctls or mode != "ground":
        return "str(result) displays %r, expected %r" % (got, want)
    fresh = mk_fmt(wire.fmt_chunks(r))
    if not (r == fresh) or hash(r) != hash(fresh) or r.s != fresh.s or len(r) != len(fresh) or str(r) != str(fresh):
        return "result differs from a FmtStr freshly built from its own runs (==/hash/str/.s/len): %r vs %r" % (str(r), str(fresh))
    return None


def _oracle(c):
    op = c["op"]
    if "valid" in c and c["valid"] is None:
        # a spelling the statement does not fix (upper-case positional names, a repeated mention with the same value,
        # None, ...): the code may accept it or reject it - but if it rejects, with ValueError, and if it accepts a
        # spelling whose meaning is plain, with exactly that meaning
        named = c["spec"].get("named") if op == "apply" else c.get("named")
        try:
            r = run_impl(c)
        except ValueError as e:
            return None if not isinstance(e, UnicodeError) else "unfixed spelling raised %s" % type(e).__name__
        except Exception as e:  # noqa: BLE001
            return "unfixed spelling raised %s instead of being accepted or ValueError" % type(e).__name__
        if named is None:
            return None
        if op == "parse":
            return None if r == named else "parse_args returned %r, the spelling can only mean %r" % (r, named)
        exp = override(cells_before(c["f"]), named)
        return None if cells(r) == exp else "accepted spelling applied %r, it can only mean %r" % (cells(r), exp)
    try:
        r = run_impl(c)
        exc = None
    except Exception as e:  # noqa: BLE001
        r, exc = None, e
    if op == "applyempty":
        if exc is not None:
            return "formatting applied to empty text raised %s: %s" % (type(exc).__name__, exc)
        named = c["spec"]["named"]
        want = [("", named)] * (2 if c["tgt"] == "two" else 1)
        if wire.fmt_chunks(r) != want:
            return "formatting applied to empty text gives runs %r, expected %r" % (wire.fmt_chunks(r), want)
        if dict(r.shared_atts) != named:
            return "shared_atts of formatted empty text is %r, applied %r" % (dict(r.shared_atts), named)
        again = r.copy_with_new_str("xyz")
        if cells(again) != [(ch, tuple(sorted(named.items()))) for ch in "xyz"]:
            return "copy_with_new_str on formatted empty text gives %r, the formatting applied was %r" % (cells(again), named)
        return None
    if op == "applystr":
        if exc is not None:
            return "fmtstr on a str with SGR sequences raised %s: %s" % (type(exc).__name__, exc)
        named = c["spec"]["named"]
        exp = [(ch, tuple(sorted(dict({k: v for k, v in a if v is not False}, **named).items())))
               for ch, a in wire.cells_of_chunks(c["g"])]
        def judged(cs):
            """named attributes with their exact value; every OTHER attribute as what the character effectively has
            (an explicit False that the parser kept from the text's own reset is the same as no entry)"""
            return [(ch, tuple((k, v) for k, v in a if k in named or v is not False)) for ch, a in cs]
        if judged(cells(r)) != judged(exp):
            return ("formatting applied to a str carrying SGR sequences: got %r, expected the text's own formatting "
                    "overridden by the named attributes %r" % (cells(r), exp))
        via = call_spec(FmtStr.from_str(str(mk_fmt(c["g"]))), c["spec"])
        if judged(cells(via)) != judged(cells(r)):
            return "fmtstr(s, spec) differs from fmtstr(FmtStr.from_str(s), spec): %r vs %r" % (cells(r), cells(via))
        return shown(r, judged(cells(r)))
    if op == "shared2":
        if not c["f"]:
            return None
        f = mk_fmt(c["f"])
        first = dict(f.shared_atts)
        d = f.shared_atts
        try:                                  # a caller scribbling on the dict it was handed
            d["bold"] = True
            d["fg"] = 35
            d.pop("bg", None)
            d.pop("underline", None)
        except Exception:  # noqa: BLE001 - an immutable mapping is fine too
            pass
        second = dict(f.shared_atts)
        if second != first:
            return "shared_atts reports %r after the caller edited the dict returned earlier (first read: %r)" % (second, first)
        d = f.shared_atts
        try:
            d.clear()
        except Exception:  # noqa: BLE001
            pass
        third = dict(f.shared_atts)
        if third != first:
            return "shared_atts reports %r after the caller cleared the dict returned earlier (first read: %r)" % (third, first)
        for k, v in third.items():
            for ch, a in wire.cells_of_chunks(c["f"]):
                if (k, v) not in a:
                    return "shared_atts reports %s=%r which character %r does not have" % (k, v, ch)
        return None
    if op in ("apply", "nest", "parse") and c["valid"] is False:
        if exc is None:
            return "malformed specification accepted: returned %r" % (r,)
        if not isinstance(exc, ValueError) or isinstance(exc, UnicodeError):
            return "malformed specification raised %s instead of ValueError" % type(exc).__name__
        return None
    if exc is not None:
        if op == "shared" and not c["f"] and isinstance(exc, IndexError):
            return None                       # FmtStr() has no first run; the statement is about characters
        return "%s raised %s: %s" % (op, type(exc).__name__, exc)
    if op == "parse":
        if r != c["named"]:
            return "parse_args returned %r, the specification names %r" % (r, c["named"])
        return None
    if op in ("apply", "nest"):
        before = cells_before(c["f"])
        if op == "apply":
            exp = override(before, c["spec"]["named"])
        else:
            exp = override(override(before, c["specs"][0]["named"]), c["specs"][1]["named"])
        got = cells(r)
        if got != exp:
            return "formatting applied differs from the named attributes: got %r expected %r" % (got, exp)
        return shown(r, exp)
    before = wire.cells_of_chunks(c["f"])
    if op == "cwna":
        if cells(r) != override(before, c["atts"]):
            return "copy_with_new_atts: got %r expected %r" % (cells(r), override(before, c["atts"]))
        return shown(r, override(before, c["atts"]))
    if op == "nwar":
        exp = [(ch, tuple((k, v) for k, v in a if k not in c["names"])) for ch, a in before]
        if cells(r) != exp:
            return "new_with_atts_removed: got %r expected %r" % (cells(r), exp)
        return shown(r, exp)
    if op == "cwns":
        attsets = {a for _, a in before}      # per CHARACTER (empty runs are not formatting anything)
        if len(attsets) == 1:                 # uniformly formatted string: formatting kept, text swapped
            exp = [(ch, next(iter(attsets))) for ch in c["t"]]
            if cells(r) != exp or r.s != c["t"]:
                return "copy_with_new_str on a uniform string: got %r expected %r" % (cells(r), exp)
        elif r.s != c["t"]:
            return "copy_with_new_str: text %r" % r.s
        return None
    if op == "shared":
        for k, v in r.items():
            for ch, a in before:
                if (k, v) not in a:
                    return "shared_atts reports %s=%r which character %r does not have" % (k, v, ch)
        return None
    raise KeyError(op)


def oracle(c):
    """the property on the raw Python result; any exception while observing a result is a violation, never a crash"""
    try:
        return _oracle(c)
    except Exception as e:  # noqa: BLE001
        return "observing the result raised %s: %s" % (type(e).__name__, e)


def footprint(c, what):
    return None


def nontrivial(c):
    op = c["op"]
    if op in ("apply", "parse"):
        sp = c["spec"] if op == "apply" else c
        return c.get("valid") is not True or bool(sp.get("named"))
    if op == "nwar":
        return bool(c["names"]) and bool(c["f"])
    return True


def tag(c):
    if c["op"] == "apply":
        return "apply/" + ("valid" if c["valid"] else ("unfixed-spelling" if c["valid"] is None else "malformed"))
    return c["op"]


def check(ctx):
    cases = mk_cases(ctx)
    tied = []
    for c in cases:
        if c["op"] in ("shared2", "applyempty"):
            continue
        if c["op"] == "applystr":
            tied.append(dict(c, op="applystr-named"))
            continue
        if c["op"] == "nest":
            # tie the two steps separately: the second step starts from the real result of the first
            try:
                mid = wire.fmt_chunks(call_spec(real_f(c["f"]), c["specs"][0]))
            except Exception:  # noqa: BLE001
                continue
            tied.append(dict(op="apply", lay="nest2", f=mid, spec=c["specs"][1], valid=True))
        else:
            tied.append(c)
    ok = []
    for c in tied:
        try:
            line(c)
            ok.append(c)
        except wire.Unencodable:
            ctx.dist["not-encodable-for-the-model"] += 1   # the oracle still judges the case below
    tied = ok
    unfixed = lambda c: "valid" in c and c["valid"] is None
    ctx.tie("C14/atts", [c for c in tied if c["op"] in ("parse", "shared") and not unfixed(c)], line, impl, canon_atts, canon_atts)
    fromtext = lambda c: c["op"] == "applystr-named"
    ctx.tie("C14/cells", [c for c in tied if c["op"] not in ("parse", "shared") and not unfixed(c) and not fromtext(c)], line, impl, canon_cells, canon_cells)
    # attributes PARSED from the text of a str: compared as what each character effectively has (explicit False = absent);
    # the raw dicts (whether the parser keeps a False after a reset) only at representation level
    ctx.tie("C14/cells-of-parsed-str", [c for c in tied if fromtext(c)], line, impl, canon_eff_cells, canon_eff_cells)
    ctx.tie("C14/cells-of-parsed-str-raw", [c for c in tied if fromtext(c)], line, impl, canon_cells, canon_cells, level="representation")
    # spellings / repeated mentions the statement does not fix (the model mirrors what the code does today)
    ctx.tie("C14/unfixed-spellings-atts", [c for c in tied if c["op"] == "parse" and unfixed(c)], line, impl, canon_atts,
            canon_atts, level="representation")
    ctx.tie("C14/unfixed-spellings-cells", [c for c in tied if c["op"] != "parse" and unfixed(c)], line, impl, canon_cells,
            canon_cells, level="representation")
    for c in cases:
        w = oracle(c)
        ctx.count(c, nontrivial=nontrivial(c), tag=tag(c))
        if w:
            ctx.violation(w, c, footprint(c, w))
        if c["op"] in ("apply", "nest", "cwna", "nwar", "cwns") and c.get("valid", True):
            # the same call on an operand that has been rendered / measured / compared before
            c2 = dict(c, observe=True)
            w = oracle(c2)
            ctx.count(c2, nontrivial=nontrivial(c), tag=tag(c) + "/observed-first")
            if w:
                ctx.violation(w, c2, footprint(c2, w))


def search(ctx):
    if ctx.thorough:
        return
    ctx.thorough = True
    for c in mk_cases(ctx):
        w = oracle(c)
        ctx.count(c, tag="search")
        if w:
            ctx.violation(w, c, footprint(c, w))
            if len(ctx.violations) > 50:
                return


def replay(payload):
    c = payload["case"]
    out = dict(case=c, oracle=oracle(c))
    if c["op"] not in ("nest", "shared2", "applystr", "applyempty"):
        out["implementation"] = impl(c)
        out["model_request"] = line(c)
    return out
