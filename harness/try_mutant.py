#!/venv/bin/python
"""try_mutant.py PROP PATCH [--demo DEMO.py] [--also C04,C13]
Validates a seeded change and runs the registered check(s) against it WITHOUT touching /repo:
a scratch worktree of /repo's HEAD gets the patch; the check runs with PYTHONPATH/CURTSIES_REPO pointing
there and evidence/replays redirected to a temp dir.  Prints a JSON summary; removes the worktree."""
import argparse, json, os, subprocess, sys, tempfile, shutil, hashlib

PY = "/venv/bin/python"


def run(cmd, cwd=None, env=None, timeout=3600):
    p = subprocess.run(cmd, cwd=cwd, env=env, text=True, stdout=subprocess.PIPE, stderr=subprocess.STDOUT, timeout=timeout)
    return p.returncode, p.stdout


def main():
    ap = argparse.ArgumentParser()
    ap.add_argument("prop"); ap.add_argument("patch"); ap.add_argument("--demo"); ap.add_argument("--also", default="")
    ap.add_argument("--tier", default="quick")
    a = ap.parse_args()
    tag = hashlib.sha1(open(a.patch, "rb").read()).hexdigest()[:10]
    wt = "/tmp/mutrun/%s" % tag
    os.makedirs("/tmp/mutrun", exist_ok=True)
    run(["git", "-C", "/repo", "worktree", "remove", "--force", wt])
    rc, out = run(["git", "-C", "/repo", "worktree", "add", "-q", wt, "HEAD"])
    res = dict(prop=a.prop, patch=a.patch, worktree_commit=run(["git", "-C", "/repo", "rev-parse", "--short", "HEAD"])[1].strip())
    try:
        envc = dict(os.environ, PYTHONPATH=wt)
        if a.demo:
            res["demo_clean_rc"] = run([PY, a.demo], cwd=wt, env=envc, timeout=300)[0]
        rc, out = run(["git", "apply", os.path.abspath(a.patch)], cwd=wt)
        res["applies"] = rc == 0
        if rc != 0:
            res["apply_out"] = out[-500:]
            print(json.dumps(res, indent=1)); return 2
        rc, out = run([PY, "-m", "pytest", "-q", "-p", "no:cacheprovider", "-x"], cwd=wt, env=envc, timeout=900)
        res["tests"] = out.strip().splitlines()[-1] if out.strip() else ""
        res["tests_pass"] = rc == 0
        if a.demo:
            rc, out = run([PY, a.demo], cwd=wt, env=envc, timeout=300)
            res["demo_mutant_rc"] = rc
            res["demo_mutant_out"] = out[-400:]
        tmp = tempfile.mkdtemp(prefix="mutev_")
        env = dict(os.environ, PYTHONPATH=wt, CURTSIES_REPO=wt, VERIF_EVIDENCE_DIR=tmp, VERIF_REPLAY_DIR=tmp)
        res["checks"] = {}
        for prop in [a.prop] + [x for x in a.also.split(",") if x]:
            rc, out = run([PY, "/verif/harness/run.py", prop, "--tier", a.tier], cwd="/verif", env=env, timeout=3600)
            lines = [l for l in out.splitlines() if l.startswith("VIOLATION") or l.startswith("KNOWN-FINDING") or " OK " in l or " FAIL " in l or l.startswith("INFRA")]
            rp = None
            for l in lines:
                if l.startswith("VIOLATION") and "replay=" in l:
                    path = l.split("replay=")[1].split()[0]
                    try:
                        d = json.load(open(path)); rp = dict(kind=d.get("kind"), what=str(d.get("what"))[:300], case=str(d.get("case"))[:300])
                    except Exception as e:  # noqa
                        rp = str(e)
                    break
            res["checks"][prop] = dict(rc=rc, lines=lines[:8], first_replay=rp)
        shutil.rmtree(tmp, ignore_errors=True)
    finally:
        run(["git", "-C", "/repo", "worktree", "remove", "--force", wt])
        # restore Generated/ from the real /repo
        run([PY, "-c", "import sys; sys.path.insert(0, '/verif/harness'); import lib\nwith lib.BuildLock(): lib.regenerate()"], env={k: v for k, v in os.environ.items() if k not in ("PYTHONPATH", "CURTSIES_REPO")})   # under the build lock: never while another run builds
    print(json.dumps(res, indent=1))
    return 0


if __name__ == "__main__":
    sys.exit(main())
