"""Attribute-dict mutators (C13): which method names of `dir(dict)` change a plain dict - found by TRYING each
name with plausible argument tuples on copies of sample dicts - and which of them the live
`FrozenAttributes` lets through (returns without raising).  The Lean side restricts the guard theorems to
this list and decides that the model lets through exactly the names the live class lets through."""

ARGS = [[], ["bold"], ["fg"], ["zz"], ["bold", False], ["zz", 1], [{"bold": False}], [[["italic", True]]], ["bold", None]]
SAMPLES = [{}, {"fg": 31, "bold": True}]


def dict_mutators():
    """[(name, args)] over dir(dict): calling dict.<name>(*args) changes some sample dict"""
    found = []
    for name in dir(dict):
        for a in ARGS:
            hit = False
            for s in SAMPLES:
                d = dict(s)
                try:
                    getattr(d, name)(*a)
                except BaseException:  # noqa: BLE001
                    pass
                if d != s:
                    hit = True
            if hit:
                found.append((name, a))
    return found


def unguarded(muts):
    """names of mutators that return without raising on a live FrozenAttributes (for some arguments/sample)"""
    from curtsies.formatstring import FrozenAttributes
    out = set()
    for name, a in muts:
        for s in SAMPLES:
            d = FrozenAttributes(s)
            try:
                getattr(d, name)(*a)
                out.add(name)
            except Exception:  # noqa: BLE001
                pass
    return sorted(out)


def main(ex):
    muts = dict_mutators()
    names = sorted({n for n, _ in muts})
    body = ("/-- method names of `dir(dict)` whose call changes a plain dict (semantic enumeration at extraction time) -/\n"
            "def dictMutators : List String := " + ex.llist(ex.lstr(n) for n in names) + "\n\n"
            "/-- the subset the live `FrozenAttributes` lets through: the call returns instead of raising -/\n"
            "def frozenUnguarded : List String := " + ex.llist(ex.lstr(n) for n in unguarded(muts)) + "\n")
    ex.write("Heap", body)
