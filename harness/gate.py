#!/venv/bin/python
"""gate.py [--seeds 0,1,2]: what must hold before a commit: the whole lake project builds (setup_cmd), every claimed
check exits 0 on the unchanged tree for several seeds, every evidence file validates; the last pass (seed 0) leaves the
evidence files to commit."""
import argparse, json, os, subprocess, sys
ap = argparse.ArgumentParser(); ap.add_argument("--seeds", default="1,2,0"); ap.add_argument("-j", default="4")
a = ap.parse_args()
V = "/verif"
r = subprocess.run(json.load(open(V + "/MANIFEST.json"))["setup_cmd"], shell=True, cwd=V, text=True, stdout=subprocess.PIPE, stderr=subprocess.STDOUT)
if r.returncode != 0:
    print("SETUP FAILED\n" + r.stdout[-3000:]); sys.exit(1)
bad = 0
for seed in a.seeds.split(","):
    r = subprocess.run(["/venv/bin/python", V + "/harness/run_all.py", "--seed", seed, "-j", a.j], cwd=V, text=True, stdout=subprocess.PIPE, stderr=subprocess.STDOUT)
    lines = [l for l in r.stdout.splitlines() if "rc=" in l]
    fails = [l for l in lines if "rc=0" not in l]
    print("seed", seed, "checks", len(lines), "failed", fails)
    if r.returncode != 0:
        bad += 1
        print(r.stdout[-3000:])
r = subprocess.run(["/opt/veriftools/pyvenv/bin/python", "-c", """
import json, jsonschema, glob
S = json.load(open('/root/.vp/EVIDENCE.schema.json'))
M = json.load(open('/verif/MANIFEST.json'))
jsonschema.validate(M, json.load(open('/root/.vp/MANIFEST.schema.json')))
for c in M['checks']:
    e = json.load(open(c['evidence_file']))
    jsonschema.validate(e, S)
    cov = e['coverage']
    assert cov['obligations'] >= 1 and cov['discharged'] == cov['obligations'], (c['property_id'], cov['obligations'], cov['discharged'])
    assert e['level'] == 'proof' and e['tier'] in ('quick', 'thorough')
print('evidence ok', len(M['checks']))
"""], text=True, stdout=subprocess.PIPE, stderr=subprocess.STDOUT)
print(r.stdout[-1500:])
sys.exit(1 if bad or r.returncode else 0)
