"""Python mirror of lean/Curtsies/Spec/Sgr.lean (the SGR reader of an ANSI terminal), used by oracles.
`display(s)` -> (cells, final_state, ctls, mode); a cell is (char, state) with state a sorted tuple of
(key, value) pairs in the vocabulary of curtsies attribute dicts (fg 30-37, bg 40-47, style True).
Cross-checked against the Lean spec through the driver op `display` (props/c01.py) on every run."""

STYLE = {1: "bold", 2: "dark", 3: "italic", 4: "underline", 5: "blink", 7: "invert"}


STYLE_OFF = {22: ("bold", "dark"), 23: ("italic",), 24: ("underline",), 25: ("blink",), 27: ("invert",)}


def apply_sgr(n, g):
    g = dict(g)
    if n == 0:
        return {}
    if n in STYLE:
        g[STYLE[n]] = True
        return g
    if 30 <= n <= 37:
        g["fg"] = n
        return g
    if n == 39:
        g.pop("fg", None)
        return g
    if 40 <= n <= 47:
        g["bg"] = n
        return g
    if n == 49:
        g.pop("bg", None)
        return g
    if n in STYLE_OFF:     # the "off" codes (curtsies does not emit them today, but they are SGR all the same)
        for k in STYLE_OFF[n]:
            g.pop(k, None)
        return g
    return None


def freeze(g):
    return tuple(sorted(g.items()))


def display(s, g=None):
    g = dict(g or {})
    cells, ctls = [], []
    mode, done, cur = "ground", [], None
    for c in s:
        if mode == "ground":
            if c == "\x1b":
                mode = "esc"
            elif c == "\x9b":
                mode, done, cur = "csi", [], None
            else:
                cells.append((c, freeze(g)))
        elif mode == "esc":
            if c == "[":
                mode, done, cur = "csi", [], None
            else:
                ctls.append("esc:%d" % ord(c))
                mode = "ground"
        else:
            if "0" <= c <= "9":
                cur = (cur or 0) * 10 + (ord(c) - 48)
            elif c == ";":
                done.append(cur or 0)
                cur = None
            elif c == "m":
                for n in done + [cur or 0]:
                    g2 = apply_sgr(n, g)
                    if g2 is None:
                        ctls.append("sgr:%d" % n)
                    else:
                        g = g2
                mode = "ground"
            else:
                ctls.append("csi:%s:%d" % (",".join(map(str, done + ([cur] if cur is not None else []))), ord(c)))
                mode = "ground"
    return cells, freeze(g), ctls, mode
