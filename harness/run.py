#!/venv/bin/python
"""run.py Cxx [--tier quick|thorough] [--replay FILE]

Decides one property: regenerate Generated/*.lean from /repo, `lake build` (re-checks every theorem),
axiom audit of the property's theorems, correspondence model<->implementation, property oracle on the
implementation, verdict + evidence.  Exit 0 = held, 1 = VIOLATION line printed, 2 = infrastructure trouble.
"""
import argparse
import importlib
import json
import os
import sys
import time
import traceback

sys.path.insert(0, os.path.dirname(os.path.abspath(__file__)))
import lib  # noqa: E402


def watchdog(seconds):
    """a hang (a looping implementation, a dead worker pool) must not look like a verdict: exit 2 after the limit"""
    import threading

    def fire():
        sys.stderr.write("INFRA: no verdict after %d s (watchdog)\n" % seconds)
        sys.stderr.flush()
        try:    # os._exit skips atexit: remove this run's private driver copy by hand
            import shutil
            d = getattr(lib, "DRIVER", None)
            if d is not None and "verif-driver-" in str(d):
                shutil.rmtree(str(d.parent), ignore_errors=True)
        except Exception:  # noqa: BLE001
            pass
        os._exit(2)
    t = threading.Timer(seconds, fire)
    t.daemon = True
    t.start()


def guarded_phase(ctx, fn, phase):
    """An exception escaping a property module must not discard what was already found.  If it was raised by the
    implementation under test (innermost frames inside the curtsies package) it is itself a violation candidate:
    the real code raised where the harness expected it not to.  Otherwise it is a harness problem: infrastructure
    trouble unless unlisted violations are already recorded (then they decide)."""
    try:
        fn(ctx)
    except lib.InfraError:
        raise
    except Exception as e:  # noqa: BLE001
        tb = traceback.extract_tb(e.__traceback__)
        import curtsies
        pkg = os.path.dirname(os.path.abspath(curtsies.__file__))
        in_impl = bool(tb) and os.path.abspath(tb[-1].filename).startswith(pkg)
        text = "".join(traceback.format_exception(type(e), e, e.__traceback__))[-3000:]
        ctx.note("%s() aborted by %s" % (phase, type(e).__name__))
        if in_impl:
            ctx.violation("the implementation raised %s: %s where the check expected it to complete (%s phase)"
                          % (type(e).__name__, str(e)[:200], phase), dict(traceback=text), None)
        else:
            ctx.harness_crash = text


def main():
    ap = argparse.ArgumentParser()
    ap.add_argument("prop")
    ap.add_argument("--tier", default=os.environ.get("VERIF_TIER", "quick"), choices=["quick", "thorough"])
    ap.add_argument("--replay")
    ap.add_argument("--no-build", action="store_true", help="development only: skip regenerate/build/audit")
    args = ap.parse_args()
    prop = args.prop.upper()
    seed = int(os.environ.get("VERIF_SEED", "0") or 0)
    os.environ[lib.GUARD] = "1"
    mod = importlib.import_module("props." + prop.lower())

    if args.replay:
        payload = json.loads(open(args.replay).read())
        if "case" not in payload:
            print(json.dumps(dict(replay="this replay names proof obligations / correspondence lines that no longer check; "
                                         "there is no failing input to re-run", payload=payload), indent=1, default=repr))
            return 0
        res = mod.replay(payload)
        print(json.dumps(res, indent=1, default=repr))
        return 1 if (isinstance(res, dict) and res.get("oracle")) else 0

    ctx = lib.Ctx(prop, args.tier, seed)
    problems = []          # proof-side problems (strings)
    build_info = {}
    theorems, discharged = [], []
    t_build = 0.0
    watchdog(7200 if args.tier == "thorough" else 1500)
    if not args.no_build:
      with lib.BuildLock():      # regenerate + build + audit + private driver copy: one critical section
        lib.regenerate()
        ok, failed, log, t_build = lib.lake_build()
        if not ok and (lib.infra_failure(log) or not failed):
            raise lib.InfraError("lake build failed for a reason that is not an elaboration error:\n" + log[-3000:])
        deps = set()
        for m in mod.MODULES:
            deps |= lib.module_deps(m)
        # a failure in anything the DRIVER is built from would leave a stale binary on the model side of every tie
        driver_side = ("Main", "driver", "Curtsies.Driver", "Curtsies.Wire", "Curtsies.Model", "Curtsies.Generated", "Curtsies.Spec")
        relevant_failed = [m for m in failed if m in deps or m.startswith(driver_side)]
        build_info = dict(build_ok=ok, failed_modules=failed, relevant_failed=relevant_failed, build_s=round(t_build, 1))
        for m in relevant_failed:
            problems.append("lake build: module %s no longer checks" % m)
        if relevant_failed:
            build_info["build_log_tail"] = log[-4000:]
        bad = lib.forbidden_tokens()
        for b in bad:
            problems.append("forbidden token in Lean sources: " + b)
        theorems = lib.property_theorems(prop, mod.MODULES) + list(getattr(mod, "EXTRA_THEOREMS", []))
        pinned = lib.pinned_theorems(prop)
        if pinned is not None:
            for t in pinned:
                if t not in theorems:
                    problems.append("pinned theorem %s is missing from the property modules (renamed, deleted, commented out or moved?)" % t)
                    theorems.append(t)
        if args.tier == "thorough" and not relevant_failed:
            rc, out = lib.sh(["lake", "env", "leanchecker"] + list(mod.MODULES), cwd=lib.LEAN, timeout=3000)
            build_info["leanchecker_rc"] = rc
            if rc != 0:
                problems.append("leanchecker rejected the property modules: " + out[-500:])
        discharged, aud_problems = lib.audit(prop, mod.MODULES + list(getattr(mod, "EXTRA_MODULES", [])), theorems)
        problems += aud_problems
        lib.private_driver()

    # source drift: a changed function body deepens this run's exploration (never a verdict by itself)
    try:
        import drift
        ctx.drift = drift.drifted(prop, getattr(mod, "SOURCES", {})) if hasattr(mod, "SOURCES") else []
    except Exception as e:  # noqa: BLE001
        ctx.drift = []
        ctx.note("drift fingerprint unavailable: %r" % (e,))
    if ctx.drift and not ctx.thorough:
        ctx.thorough = True
        ctx.note("source drift in %s: correspondence and oracle run at thorough bounds" % ", ".join(ctx.drift[:6]))

    # correspondence + oracle at this tier's bounds
    guarded_phase(ctx, mod.check, "check")

    known = lib.known_findings(prop)
    open_ids = {e["id"] for e in known if e.get("status") == "open"}

    def unlisted():
        return [v for v in ctx.violations if v["footprint"] not in open_ids]

    tie_broken = bool(ctx.disagreements)
    repr_broken = bool(ctx.repr_disagreements)
    if repr_broken:
        ctx.note("representation-level correspondence differs (not a verdict; the model no longer mirrors the implementation "
                 "beyond what the property speaks about): " + "; ".join(
                     "%s: %d of %d" % (k, t["disagreements"], t["compared"]) for k, t in ctx.ties.items()
                     if t.get("level") == "representation" and t["disagreements"]) + "; first: " +
                 json.dumps(dict(tie=ctx.repr_disagreements[0][0], case=ctx.repr_disagreements[0][1],
                                 implementation=ctx.repr_disagreements[0][2], model=ctx.repr_disagreements[0][3]), default=repr)[:600])
    if (problems or tie_broken or repr_broken) and not unlisted() and args.tier == "quick" and hasattr(mod, "search"):
        # a proof obligation or the correspondence broke: search both sides for a failing input
        ctx.escalated = True
        ctx.note("escalated: " + "; ".join(problems + ["correspondence %s disagrees" % d[0] for d in (ctx.disagreements + ctx.repr_disagreements)[:3]]))
        ctx.in_search = True
        guarded_phase(ctx, mod.search, "search")

    # A case the oracle attributed to a known finding, on which model and implementation ALSO disagree, is not
    # explained by that finding (the model reproduces the recorded defect): report it as a failing input.
    if tie_broken and not unlisted():
        bad_cases = {lib.chash(d[1]) for d in ctx.disagreements if d[1] is not None} | ctx.bad_case_hashes
        for v in ctx.violations:
            if v["footprint"] in open_ids and lib.chash(v["case"]) in bad_cases:
                v["what"] = "(attributed to %s by its footprint, but model and implementation disagree on this case) %s" % (v["footprint"], v["what"])
                v["footprint"] = None

    if getattr(ctx, "harness_crash", None) and not unlisted():
        raise lib.InfraError("the property module crashed (not inside the implementation) and nothing was found before:\n" + ctx.harness_crash)

    rc = 0
    out_lines = []
    seen_fp = set()
    for e in known:
        if e.get("status") != "open":
            continue
        hits = [v for v in ctx.violations if v["footprint"] == e["id"]]
        if hits:
            out_lines.append("KNOWN-FINDING: property=%s %s (%s; %d failing cases this run, e.g. %s)" % (
                prop, e["what"], e["id"], len(hits), json.dumps(hits[0]["case"], default=repr)[:160]))
        else:
            ctx.note("known finding %s was not reproduced by this run" % e["id"])
    ul = unlisted()
    if ul:
        rc = 1
        shown = 0
        for v in ul:
            key = v["what"].split(":")[0]
            if key in seen_fp or shown >= 5:
                continue
            seen_fp.add(key)
            shown += 1
            path = lib.write_replay(prop, "failing-input", dict(what=v["what"], case=v["case"], extra=v["extra"]))
            out_lines.append("VIOLATION property=%s replay=%s" % (prop, path))
    elif problems or tie_broken:
        rc = 1
        payload = dict(no_longer_checks=problems,
                       correspondence=[dict(tie=d[0], case=d[1], implementation=d[2], model=d[3]) for d in ctx.disagreements[:5]],
                       build=build_info,
                       searched="oracle at thorough bounds found no input on which the implementation violates the property")
        path = lib.write_replay(prop, "no-failing-input-found", payload)
        out_lines.append("VIOLATION property=%s replay=%s no-failing-input-found" % (prop, path))

    import leaninfo
    li = leaninfo.info(prop, mod.MODULES)
    statements = dict(full_statements_proved=li["proved"], full_statements_refuted_by_a_witness=li["refuted"],
                      full_statements_not_proved=li["open"], theorems_with_an_extra_named_hypothesis=li["partial"],
                      note="obligations/discharged count every theorem named %s_* (property theorems, table lemmas, partial forms, "
                           "witnesses that refute a full statement); a property whose full statement is refuted or open is decided only "
                           "under the named hypotheses" % prop)
    wall = time.time() - ctx.t0
    ev = {
        "property_id": prop, "tier": args.tier, "seed": seed, "level": "proof",
        "coverage": {
            "obligations": len(theorems), "discharged": len(discharged),
            "checker_cmd": "cd /verif/lean && lake build && lake env lean .lake/audit/Audit_%s.lean  (#print axioms of every %s_* theorem)%s"
                           % (prop, prop, "; lake env leanchecker " + " ".join(mod.MODULES) if args.tier == "thorough" else ""),
            "trusted_base": lib.TRUSTED_BASE + list(getattr(mod, "TRUSTED", [])),
            "theorems": theorems, "proof_problems": problems, "build": build_info,
            "evaluations": ctx.evaluations, "distinct_nontrivial": len(ctx.nontrivial),
            "rule": getattr(mod, "RULE", ""), "samples": lib.jsonable(ctx.samples[:6]) or ["(no cases)"],
            "traces_validated_against_impl": sum(t["compared"] for k, t in ctx.ties.items() if t.get("involves_impl", True)
                                                 and not any(w in k.lower() for w in ("mirror", "pyte", "spec", "termref", "cpython"))),
            "cases_compared_spec_vs_mirror_or_second_opinion": sum(t["compared"] for k, t in ctx.ties.items() if not t.get("involves_impl", True)
                                                                   or any(w in k.lower() for w in ("mirror", "pyte", "spec", "termref", "cpython"))),
            "statements": statements,
            "correspondence": ctx.ties, "distribution": dict(ctx.dist.most_common(40)),
            "exhaustive_enumerations": ctx.exhaustive, "escalated_search": ctx.escalated,
            "source_drift": getattr(ctx, "drift", []),
            "known_findings_reproduced": sorted({v["footprint"] for v in ctx.violations if v["footprint"] in open_ids}),
            "notes": ctx.notes,
        },
        "assumptions": list(getattr(mod, "ASSUMPTIONS", [])),
        "wall_s": round(wall, 2),
        "violations": len(ul) if ul else (1 if rc else 0),
    }
    evdir = lib.EVIDENCE if (not args.no_build or os.environ.get("VERIF_EVIDENCE_DIR")) else lib.Path("/tmp/verif-nobuild-evidence")   # dev runs never touch evidence/
    evdir.mkdir(exist_ok=True)
    (evdir / (prop + ".json")).write_text(json.dumps(ev, indent=1, default=repr))
    for l in out_lines:
        print(l)
    print("%s %s tier=%s seed=%d theorems=%d/%d cases=%d nontrivial=%d ties=%s wall=%.1fs" % (
        prop, "OK" if rc == 0 else "FAIL", args.tier, seed, len(discharged), len(theorems), ctx.evaluations,
        len(ctx.nontrivial), {k: (v["compared"], v["disagreements"]) for k, v in ctx.ties.items()}, wall))
    return rc


if __name__ == "__main__":
    try:
        sys.exit(main())
    except lib.InfraError as e:
        print("INFRA: %s" % e, file=sys.stderr)
        sys.exit(2)
    except Exception:
        traceback.print_exc()
        sys.exit(2)
