"""Line-protocol codec, Python side (mirror of lean/Curtsies/Wire.lean).

Encodes *real* curtsies objects into the wire form the Lean driver reads, and decodes the
driver's replies into plain Python values so that both sides can be compared after
canonicalisation.  Anything that cannot be represented in the model (attribute keys or values
outside the eight legal ones) raises Unencodable: generators must stay inside the model's domain
and the harness counts such cases instead of guessing.
"""
from curtsies.formatstring import FmtStr, Chunk

COLORS = ("black", "red", "green", "yellow", "blue", "magenta", "cyan", "gray")
STYLE_LETTER = {"blink": "K", "bold": "B", "dark": "D", "invert": "V", "italic": "I", "underline": "U"}
LETTER_STYLE = {v: k for k, v in STYLE_LETTER.items()}
SORTED_KEYS = ("bg", "blink", "bold", "dark", "fg", "invert", "italic", "underline")


class Unencodable(Exception):
    pass


def enc_text(s):
    return ",".join(str(ord(c)) for c in s)


def enc_tf(s):
    """stand-alone text field of a request line (never empty)"""
    return enc_text(s) or "e"


def dec_text(s):
    return "" if s == "" else "".join(chr(int(p)) for p in s.split(","))


def enc_atts(atts):
    toks = []
    for k in sorted(atts):
        v = atts[k]
        if k == "fg":
            if type(v) is not int or not 30 <= v <= 37:
                raise Unencodable(("fg", v))
            toks.append("f%d" % (v - 30))
        elif k == "bg":
            if type(v) is not int or not 40 <= v <= 47:
                raise Unencodable(("bg", v))
            toks.append("b%d" % (v - 40))
        elif k in STYLE_LETTER:
            if v is True:
                toks.append(STYLE_LETTER[k] + "1")
            elif v is False:
                toks.append(STYLE_LETTER[k] + "0")
            else:
                raise Unencodable((k, v))
        else:
            raise Unencodable((k, v))
    return ",".join(toks)


def dec_atts(s):
    d = {}
    if s == "":
        return d
    for tok in s.split(","):
        k, v = tok[0], tok[1:]
        if k == "f":
            d["fg"] = 30 + int(v)
        elif k == "b":
            d["bg"] = 40 + int(v)
        else:
            d[LETTER_STYLE[k]] = v == "1"
    return d


def enc_chunk(c):
    return enc_text(c.s) + "|" + enc_atts(c.atts)


def enc_fmt(f):
    if not f.chunks:
        return "-"
    return ";".join(enc_chunk(c) for c in f.chunks)


def enc_chunks(chunks):
    """chunks given as [(text, attsdict)]"""
    if not chunks:
        return "-"
    return ";".join(enc_text(s) + "|" + enc_atts(a) for s, a in chunks)


def dec_fmt(s):
    """-> list of (text, atts dict)"""
    if s == "-":
        return []
    out = []
    for ch in s.split(";"):
        t, a = ch.split("|")
        out.append((dec_text(t), dec_atts(a)))
    return out


def mk_fmt(chunks):
    """Build a real FmtStr from [(text, attsdict)] (Chunk level, the way the library itself does)."""
    return FmtStr(*(Chunk(s, dict(a)) for s, a in chunks))


def fmt_chunks(f):
    return [(c.s, dict(c.atts)) for c in f.chunks]


def cells_of_chunks(chunks):
    """per-character view [(char, frozenset(atts.items()))]"""
    out = []
    for s, a in chunks:
        key = tuple(sorted(a.items()))
        for ch in s:
            out.append((ch, key))
    return out


def cells(f):
    return cells_of_chunks(fmt_chunks(f))


def eff(atts):
    """what a terminal shows: drop explicit False styles"""
    return tuple(sorted((k, v) for k, v in dict(atts).items() if v is not False))


def eff_cells_of_chunks(chunks):
    out = []
    for s, a in chunks:
        key = eff(a)
        for ch in s:
            out.append((ch, key))
    return out


def enc_optint(v):
    return "N" if v is None else str(v)


def exc_kind(e):
    """Exception -> the small enum the model uses."""
    for cls, name in ((UnicodeDecodeError, "UnicodeDecodeError"), (NotImplementedError, "NotImplementedError"),
                      (ValueError, "ValueError"), (IndexError, "IndexError"), (KeyError, "KeyError"),
                      (TypeError, "TypeError"), (AssertionError, "AssertionError")):
        if isinstance(e, cls):
            return "E:" + name
    return "E:Exception"
