#!/venv/bin/python
"""try_benign.py PATCH [--check CHECK.py] [--props C01,C06] [-j 8]
Runs the registered checks against a change that is claimed to PRESERVE the properties, WITHOUT touching /repo:
a scratch worktree of /repo's HEAD gets the patch, the test-suite and the author's own check run there, then every
selected check (default: all claimed) runs with PYTHONPATH/CURTSIES_REPO pointing there.  Expected: every check exits 0.
Prints a JSON summary; removes the worktree."""
import argparse, json, os, subprocess, sys, tempfile, shutil, hashlib
from concurrent.futures import ThreadPoolExecutor
PY = "/venv/bin/python"


def run(cmd, cwd=None, env=None, timeout=3600):
    p = subprocess.run(cmd, cwd=cwd, env=env, text=True, stdout=subprocess.PIPE, stderr=subprocess.STDOUT, timeout=timeout)
    return p.returncode, p.stdout


def main():
    ap = argparse.ArgumentParser()
    ap.add_argument("patch"); ap.add_argument("--check"); ap.add_argument("--props", default=""); ap.add_argument("-j", type=int, default=8)
    ap.add_argument("--tier", default="quick")
    a = ap.parse_args()
    props = [p for p in a.props.split(",") if p] or open("/verif/harness/claimed.txt").read().split()
    tag = hashlib.sha1(open(a.patch, "rb").read()).hexdigest()[:10]
    wt = "/tmp/mutrun/b%s" % tag
    os.makedirs("/tmp/mutrun", exist_ok=True)
    run(["git", "-C", "/repo", "worktree", "remove", "--force", wt])
    run(["git", "-C", "/repo", "worktree", "add", "-q", wt, "HEAD"])
    res = dict(patch=a.patch, worktree_commit=run(["git", "-C", "/repo", "rev-parse", "--short", "HEAD"])[1].strip())
    try:
        envc = dict(os.environ, PYTHONPATH=wt)
        rc, out = run(["git", "apply", os.path.abspath(a.patch)], cwd=wt)
        res["applies"] = rc == 0
        if rc != 0:
            res["apply_out"] = out[-500:]
            print(json.dumps(res, indent=1)); return 2
        rc, out = run([PY, "-m", "pytest", "-q", "-p", "no:cacheprovider", "-x"], cwd=wt, env=envc, timeout=900)
        res["tests"] = out.strip().splitlines()[-1] if out.strip() else ""
        res["tests_pass"] = rc == 0
        if a.check:
            rc, out = run([PY, a.check], cwd=wt, env=envc, timeout=1800)
            res["author_check_rc"] = rc
            if rc:
                res["author_check_out"] = out[-400:]
        tmp = tempfile.mkdtemp(prefix="benev_")
        env = dict(os.environ, PYTHONPATH=wt, CURTSIES_REPO=wt, VERIF_EVIDENCE_DIR=tmp, VERIF_REPLAY_DIR=tmp)
        # first run builds (under the lock); the rest find the build up to date
        def one(prop):
            rc, out = run([PY, "/verif/harness/run.py", prop, "--tier", a.tier], cwd="/verif", env=env, timeout=3600)
            lines = [l for l in out.splitlines() if l.startswith("VIOLATION") or l.startswith("INFRA") or " FAIL " in l]
            rp = None
            for l in lines:
                if l.startswith("VIOLATION") and "replay=" in l:
                    path = l.split("replay=")[1].split()[0]
                    try:
                        d = json.load(open(path)); rp = dict(kind=d.get("kind"), what=str(d.get("what"))[:400], case=str(d.get("case"))[:300])
                    except Exception as e:  # noqa
                        rp = str(e)
                    break
            return prop, dict(rc=rc, lines=[l[:300] for l in lines[:4]], first_replay=rp, tail=out[-600:] if rc not in (0, 1) else None)
        res["checks"] = {}
        with ThreadPoolExecutor(a.j) as ex:
            for prop, r in ex.map(one, props):
                res["checks"][prop] = r
        res["alarms"] = sorted(p for p, r in res["checks"].items() if r["rc"] != 0)
        shutil.rmtree(tmp, ignore_errors=True)
    finally:
        run(["git", "-C", "/repo", "worktree", "remove", "--force", wt])
        run([PY, "-c", "import sys; sys.path.insert(0, '/verif/harness'); import lib\nwith lib.BuildLock(): lib.regenerate()"], env={k: v for k, v in os.environ.items() if k not in ("PYTHONPATH", "CURTSIES_REPO")})   # under the build lock: never while another run builds
    print(json.dumps(res, indent=1))
    return 0


if __name__ == "__main__":
    sys.exit(main())
