#!/venv/bin/python
"""pin_theorems.py: writes harness/theorems.json = the theorem names every property must have from now on
(run after adding or renaming theorems on purpose; run.py reports a missing pinned theorem as a proof problem)."""
import importlib, json, os, sys
HERE = os.path.dirname(os.path.abspath(__file__)); sys.path.insert(0, HERE)
import lib
out = {}
for f in sorted(os.listdir(os.path.join(HERE, "props"))):
    if f[0] == "c" and f[1:3].isdigit() and f.endswith(".py"):
        mod = importlib.import_module("props." + f[:-3])
        out[mod.PROP] = lib.property_theorems(mod.PROP, mod.MODULES) + list(getattr(mod, "EXTRA_THEOREMS", []))
json.dump(out, open(os.path.join(HERE, "theorems.json"), "w"), indent=1)
print({k: len(v) for k, v in out.items()}, sum(len(v) for v in out.values()))
