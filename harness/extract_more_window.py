"""Data translator for the window properties (C02, C07, C18; called by extract.py via extract_more.py):
dumps the blessed capability strings the window code emits under TERM=xterm into Generated/Blessed.lean.
`Properties/C02.lean` re-checks by `decide` that they are the control functions Spec/Term.lean's `TermOp`
vocabulary stands for; harness/termref.py tokenises the real output with the same live strings."""
import io
import os


def caps():
    """name -> string, from a live blessed Terminal built exactly the way BaseWindow builds it"""
    os.environ["TERM"] = "xterm"
    import blessed
    s = io.StringIO()
    t = blessed.Terminal(stream=s, force_styling=True)
    d = {}
    for n in ("clear_eol", "clear_bol", "clear_eos", "hide_cursor", "normal_cursor", "move_down",
              "enter_fullscreen", "exit_fullscreen", "save", "restore"):
        d[n] = str(getattr(t, n))
    d["move_x_0"] = str(t.move_x(0))
    with t.location(x=0, y=1000000):
        s.write("|")
    d["location_enter"], d["location_exit"] = s.getvalue().split("|")
    s.seek(0)
    s.truncate()
    with t.fullscreen():
        s.write("|")
    d["fullscreen_enter"], d["fullscreen_exit"] = s.getvalue().split("|")
    moves = [(r, c, str(t.move(r, c))) for r, c in ((0, 0), (0, 1), (1, 0), (3, 7), (9, 9), (10, 99), (1000000, 0))]
    return d, moves


def main(ex):
    d, moves = caps()
    b = []
    camel = lambda n: "".join(p.capitalize() if i else p for i, p in enumerate(n.split("_")))
    for n in sorted(d):
        b.append("def %s : String := %s" % (camel(n), ex.lstr(d[n])))
    b.append("/-- `t.move(row, col)` for sample positions -/")
    b.append("def moveSamples : List (Nat × Nat × String) := " +
             ex.llist("(%d, %d, %s)" % (r, c, ex.lstr(s)) for r, c, s in moves))
    ex.write("Blessed", "namespace Blessed\n\n" + "\n".join(b) + "\n\nend Blessed\n")
