#!/venv/bin/python
"""Regenerates /verif/MANIFEST.json from the property modules under harness/props (single source of truth).
Only the ids listed in harness/claimed.txt (checks the coordinator has run green on the unchanged tree) are claimed.
A property with no module is listed under not_applicable with the reason from NOT_BUILT."""
import importlib
import json
import os
import sys

HERE = os.path.dirname(os.path.abspath(__file__))
sys.path.insert(0, HERE)
VERIF = os.path.dirname(HERE)

NOT_BUILT = {}  # property id -> reason (for properties not claimed)

PY = "/venv/bin/python"


def main():
    props = [json.loads(l) for l in open(os.path.join(VERIF, "properties.jsonl"))]
    checks, na = [], []
    for p in props:
        pid = p["id"]
        path = os.path.join(HERE, "props", pid.lower() + ".py")
        claimed = set(open(os.path.join(HERE, "claimed.txt")).read().split())
        if not os.path.exists(path) or pid not in claimed:
            na.append(dict(property_id=pid, reason=NOT_BUILT.get(pid, "model, theorems and correspondence for this property are not built yet; no other technique is substituted")))
            continue
        mod = importlib.import_module("props." + pid.lower())
        import leaninfo
        li = leaninfo.info(pid, mod.MODULES)
        pnote = ""
        if li["partial"] or li["refuted"] or li["open"]:
            pnote = " PARTIAL:"
            if li["refuted"]:
                pnote += (" the full statements %s are FALSE of the code as it is (recorded known findings; each is refuted by a witness theorem) and are proved "
                          "under the complement of the findings' footprints;" % ", ".join(li["refuted"]))
            if li["open"]:
                pnote += " the statements %s are kept visible but not proved (covered on every run by the correspondence and the oracle only);" % ", ".join(li["open"])
            if li["partial"]:
                pnote += " theorems carrying an extra named hypothesis: %s." % ", ".join(li["partial"])
        checks.append({
            "property_id": pid,
            "quick_cmd": "%s harness/run.py %s --tier quick" % (PY, pid),
            "thorough_cmd": "%s harness/run.py %s --tier thorough" % (PY, pid),
            "evidence_file": "/verif/evidence/%s.json" % pid,
            "replay_cmd_template": "%s harness/run.py %s --replay {path}" % (PY, pid),
            "engine": "lean-proof+correspondence",
            "level_claimed": {
                "category": "proof",
                "text": getattr(mod, "LEVEL_TEXT", "Lean 4 theorems about an executable model of the code, re-checked by `lake build` and an axiom audit on every run; the model is tied to /repo by a per-run differential correspondence and regenerated tables; an independent oracle on the real code turns any break into a replay"),
                "design_ref": "DESIGN.md section 3 " + pid,
            },
            "level_note": getattr(mod, "LEVEL_NOTE", "trusted: Lean kernel + propext/Classical.choice/Quot.sound, the hand-written model and specs, extract.py, the wire codec; CPython/cwcwidth/blessed/OS are modelled not verified") + pnote,
            "technique": getattr(mod, "TECHNIQUE", "Lean 4 machine-checked proof over a hand-written executable model + per-run model/implementation correspondence"),
        })
    manifest = {
        "version": 1,
        "setup_cmd": "cd /verif && %s harness/extract.py && cd lean && lake build" % PY,
        "hooks": {
            "guard": "CURTSIES_VERIF",
            "enable": "no source hooks are needed: the harness reaches everything through public entry points, subclassing and monkeypatching from its own process; run.py sets CURTSIES_VERIF=1 (reserved, unused by /repo)",
            "baseline_off_cmd": "cd /repo && /venv/bin/python -m pytest -ra -q -p no:cacheprovider --timeout=900 --continue-on-collection-errors",
            "source_commits": [],
            "add_only": True,
        },
        "engines": [{
            "name": "lean-proof+correspondence", "path": "/verif/harness/run.py",
            "serves_properties": [c["property_id"] for c in checks],
            "kind_free_text": "Lean 4.33 lake project /verif/lean (models, specs, theorems; Generated/ regenerated from /repo each run) + Python harness (correspondence through a line-protocol driver, independent oracles, evidence)",
        }],
        "checks": checks,
        "not_applicable": na,
        "notes": "See DESIGN.md. Fix commits in /repo are listed in known_findings.json (status fixed); open findings are printed as KNOWN-FINDING lines.",
    }
    with open(os.path.join(VERIF, "MANIFEST.json"), "w") as f:
        json.dump(manifest, f, indent=1)
    print("MANIFEST.json: %d checks, %d not_applicable" % (len(checks), len(na)))


if __name__ == "__main__":
    main()
